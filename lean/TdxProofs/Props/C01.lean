/-
  C01 — accepted quotes are authentic: every link of the signature chain holds.
  Property theorems only (refinement lemma: TdxProofs/Lemmas/Verify.lean).
-/
import TdxModel.Verify
import TdxProofs.Lemmas.Verify
import TdxProofs.Props.C09

namespace Tdx.Props.C01
open Tdx Tdx.Gen Tdx.Abi Tdx.Verify

/-- the parts of a quote message the signature chain covers -/
def attKey (q : QuoteV4) : Bytes := (q.signedData.getD default).ecdsaAttestationKey
def quoteSig (q : QuoteV4) : Bytes := (q.signedData.getD default).signature
def qeReport (q : QuoteV4) : Option EnclaveReport := ((qeCertData q).getD default).qeReport
def qeSig (q : QuoteV4) : Bytes := ((qeCertData q).getD default).qeReportSignature
def authData (q : QuoteV4) : Bytes := (((qeCertData q).getD default).qeAuthData.getD default).data
def qeReportData (q : QuoteV4) : Bytes := ((qeReport q).getD default).reportData

/-- the three links, declaratively -/
structure Links (C : Crypto) (q : QuoteV4) (leaf : Nat) : Prop where
  keySize : (attKey q).length = 64
  keyOnCurve : C.onCurve (attKey q) = true
  /-- header ‖ body (as re-serialised) verify under the attestation key carried in the quote -/
  quoteSigned : ∃ msg, signedMessage q = .ok msg ∧ C.verifyRaw (attKey q) msg (quoteSig q) = true
  /-- the QE report verifies under the leaf (PCK) certificate of the embedded chain -/
  qeSigned : ∃ rep, enclaveReportToAbiBytes (qeReport q) = .ok rep ∧ C.verifyCert leaf rep (qeSig q) = true
  /-- report data = SHA-256(attestation key ‖ QE auth data) followed by zeros -/
  hashBinding : qeReportData q =
    C.sha256 (attKey q ++ authData q) ++ zeros ((qeReportData q).length - (C.sha256 (attKey q ++ authData q)).length)

theorem links_of_ok (C : Crypto) (q : QuoteV4) (leaf : Nat) (h : verifyQuoteLinks C q leaf = .ok ()) : Links C q leaf := by
  unfold verifyQuoteLinks at h
  simp only [gen_const] at h
  obtain ⟨h1, h⟩ := runChecks_bind_ok.mp h
  obtain ⟨msg, hmsg, h⟩ := bind_ok h
  obtain ⟨h2, h⟩ := runChecks_bind_ok.mp h
  obtain ⟨rep, hrep, h⟩ := bind_ok h
  obtain ⟨h3, h⟩ := runChecks_bind_ok.mp h
  simp only [List.mem_cons, List.not_mem_nil, or_false, forall_eq_or_imp, forall_eq, beq_iff_eq] at h1 h2 h3
  split at h
  · cases h
  · have h4 := (runChecks_ok_iff _).mp h
    simp only [List.mem_singleton, forall_eq, beq_iff_eq] at h4
    exact ⟨h1.1, h1.2.1, ⟨msg, hmsg, h2⟩, ⟨rep, hrep, h3.2⟩, h4.symm⟩

/-- the report data are the last 64 of the 384 serialised report bytes -/
theorem report_bytes_reportData (r : Option EnclaveReport) (b : Bytes) (h : enclaveReportToAbiBytes r = .ok b) :
    (r.getD default).reportData = b.drop 320 := by
  cases r with
  | none => simp [enclaveReportToAbiBytes] at h
  | some r =>
    unfold enclaveReportToAbiBytes at h
    obtain ⟨u, hck, h⟩ := bind_ok h
    obtain ⟨l1, l2, l3, l4, l5, l6, l7, _, _, l10, _⟩ := (checkQeReport_ok_iff (u := u)).mp hck
    simp only [pure, Outcome.ok.injEq] at h
    subst h
    simp only [Option.getD_some]
    have hl : (r.cpuSvn ++ toLE32 r.miscSelect ++ r.reserved1 ++ r.attributes ++ r.mrEnclave ++ r.reserved2 ++
        r.mrSigner ++ r.reserved3 ++ toLE16 r.isvProdId ++ toLE16 r.isvSvn ++ r.reserved4).length = 320 := by
      simp only [List.length_append, toLE32_len, toLE16_len, l1, l2, l3, l4, l5, l6, l7, l10]
    rw [List.drop_append_of_le_length (by omega), ← hl, List.drop_length]
    simp

/-- **C01, main statement.** Verification succeeds only if all three links hold — for every world,
    every message, every option setting and every `Crypto`. -/
theorem accept_implies_links (C : Crypto) (w : World) (q : Option QuoteV4) (o : Opts)
    (h : (tdxQuote Fixes.all C w q o).verdict = .ok ()) :
    ∃ q' ch, q = some q' ∧ extractChain w.chainPem = .ok ch ∧ Links C q' ch.leaf := by
  obtain ⟨q', ch, ext, col, rfl, _, hch, _, _, hev⟩ := ((tdxQuote_ok_iff C w q o).mp h).witness
  exact ⟨q', ch, rfl, hch, links_of_ok C q' ch.leaf hev.links⟩

/-- With a 32-byte hash and the 64-byte report data the structural check guarantees, the binding reads
    literally "SHA-256(attestation key ‖ QE auth data) followed by 32 zero bytes". -/
theorem hash_binding_32_zero_bytes (C : Crypto) (hlen : ∀ b, (C.sha256 b).length = 32) (w : World) (q : Option QuoteV4) (o : Opts)
    (h : (tdxQuote Fixes.all C w q o).verdict = .ok ()) :
    ∃ q', q = some q' ∧ qeReportData q' = C.sha256 (attKey q' ++ authData q') ++ zeros 32 := by
  obtain ⟨q', ch, ext, col, rfl, hc, hch, _, _, hev⟩ := ((tdxQuote_ok_iff C w q o).mp h).witness
  have hl := links_of_ok C q' ch.leaf hev.links
  refine ⟨q', rfl, ?_⟩
  have hb := hl.hashBinding
  have hrd : (qeReportData q').length = 64 := by
    have := congrArg List.length hb
    obtain ⟨rep, hrep, _⟩ := hl.qeSigned
    -- the report serialised, hence it passed checkQeReport, hence its report data are 64 bytes
    unfold enclaveReportToAbiBytes at hrep
    cases hr : qeReport q' with
    | none => rw [hr] at hrep; cases hrep
    | some r =>
      rw [hr] at hrep
      obtain ⟨u, hck, _⟩ := bind_ok hrep
      have := (checkQeReport_ok_iff (u := u)).mp hck
      simp only [qeReportData, hr, Option.getD_some]
      exact this.2.2.2.2.2.2.2.2.2.2
  rw [hrd, hlen] at hb
  exact hb

/-- For a quote parsed from bytes, the signed message is exactly bytes 0–631 of the input (from C09). -/
theorem signed_message_is_input_prefix (b : Bytes) (q : QuoteV4) (h : quoteToProto b = .ok q) :
    signedMessage q = .ok (b.take 632) := by
  obtain ⟨hb, bb, h1, h2, h3, _⟩ := C09.signed_message_is_prefix b q h
  unfold signedMessage
  rw [bind_eq h1, bind_eq h2]
  simp [pure, h3]

/-- **The "consequently" clause**, relative to explicit binding hypotheses about the *given* genuine
    signatures (unforgeability itself is not a statement about this library): if, under the attestation
    key of a genuine accepted quote `g`, its signature verifies no message other than `g`'s own, and `g`'s
    QE-report signature verifies no report other than `g`'s under the leaf, and SHA-256 does not collide on
    the two key‖auth inputs at hand, then every accepted quote `q` that carries the same two signatures and
    the same certificate chain has the same signed message, the same QE report bytes, and the same
    attestation key ‖ auth data — i.e. no covered bit can differ. -/
theorem no_covered_bit_changes (C : Crypto) (w : World) (o : Opts) (g q : QuoteV4)
    (hg : (tdxQuote Fixes.all C w (some g) o).verdict = .ok ())
    (hq : (tdxQuote Fixes.all C w (some q) o).verdict = .ok ())
    (sameSig : quoteSig q = quoteSig g) (sameQeSig : qeSig q = qeSig g)
    (qeBinds : ∀ leaf r r', C.verifyCert leaf r (qeSig g) = true → C.verifyCert leaf r' (qeSig g) = true → r = r')
    (sigBinds : ∀ k m m', C.verifyRaw k m (quoteSig g) = true → C.verifyRaw k m' (quoteSig g) = true → m = m')
    (noCollision : C.sha256 (attKey q ++ authData q) = C.sha256 (attKey g ++ authData g) →
        attKey q ++ authData q = attKey g ++ authData g)
    (hlen : ∀ b, (C.sha256 b).length = 32) :
    enclaveReportToAbiBytes (qeReport q) = enclaveReportToAbiBytes (qeReport g) ∧
    attKey q ++ authData q = attKey g ++ authData g ∧
    (attKey q = attKey g → signedMessage q = signedMessage g) := by
  obtain ⟨g', chg, hg1, hchg, lg⟩ := accept_implies_links C w (some g) o hg
  obtain ⟨q', chq, hq1, hchq, lq⟩ := accept_implies_links C w (some q) o hq
  cases hg1; cases hq1
  rw [hchg] at hchq; cases hchq
  obtain ⟨rg, hrg, vg⟩ := lg.qeSigned
  obtain ⟨rq, hrq, vq⟩ := lq.qeSigned
  rw [sameQeSig] at vq
  have hr : rq = rg := qeBinds _ _ _ vq vg
  subst hr
  have hrep : enclaveReportToAbiBytes (qeReport q) = enclaveReportToAbiBytes (qeReport g) := by rw [hrq, hrg]
  -- equal report bytes ⇒ equal report data ⇒ equal hashes ⇒ (no collision) equal key ‖ auth
  obtain ⟨_, _, bg⟩ := hash_binding_32_zero_bytes C hlen w (some g) o hg
  obtain ⟨_, _, bq⟩ := hash_binding_32_zero_bytes C hlen w (some q) o hq
  rename_i g'' eg q'' eq'
  cases eg; cases eq'
  have hrd : qeReportData q = qeReportData g := by
    -- report data are the last 64 bytes of the serialised report
    have e1 := report_bytes_reportData (qeReport q) rq hrq
    have e2 := report_bytes_reportData (qeReport g) rq hrg
    simp only [qeReportData]
    rw [e1, e2]
  have hsha : C.sha256 (attKey q ++ authData q) = C.sha256 (attKey g ++ authData g) := by
    rw [bq, bg] at hrd
    exact List.append_cancel_right hrd
  refine ⟨hrep, noCollision hsha, ?_⟩
  intro hk
  obtain ⟨mg, hmg, vmg⟩ := lg.quoteSigned
  obtain ⟨mq, hmq, vmq⟩ := lq.quoteSigned
  rw [sameSig, hk] at vmq
  rw [hmq, hmg, sigBinds _ _ _ vmq vmg]

/-! ### non-vacuity: a toy `Crypto` that satisfies the binding hypotheses -/

/-- signatures are "key ‖ message", the hash is injective on ≤ 32-byte inputs padded … a toy, but it meets the hypotheses -/
def toyCrypto : Crypto :=
  { onCurve := fun _ => true
    verifyRaw := fun k m s => s == k ++ m
    verifyCert := fun i m s => s == [UInt8.ofNat i] ++ m
    sha256 := fun b => (b ++ zeros 32).take 32 }

example : ∀ b, (toyCrypto.sha256 b).length = 32 := by intro b; simp [toyCrypto, zeros]
example (k m m' s : Bytes) (h1 : toyCrypto.verifyRaw k m s = true) (h2 : toyCrypto.verifyRaw k m' s = true) : m = m' := by
  simp only [toyCrypto, beq_iff_eq] at h1 h2
  rw [h1] at h2
  exact List.append_cancel_left h2

end Tdx.Props.C01
