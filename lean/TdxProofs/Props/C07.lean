/-
  C07 — the quoting enclave must match Intel's QE identity and be UpToDate.
-/
import TdxModel.Verify
import TdxProofs.Lemmas.Verify
import TdxProofs.Lemmas.Tcb

namespace Tdx.Props.C07
open Tdx Tdx.Gen Tdx.Abi Tdx.Verify

/-- the first QE TCB level in listed order whose isvsvn is not above the report's ISVSVN -/
def FirstQeLevel (levels : List TcbLevelF) (isvsvn : Nat) (l : TcbLevelF) : Prop :=
  ∃ i, ∃ h : i < levels.length, levels[i] = l ∧ l.isvsvn ≤ isvsvn ∧ ∀ j (hj : j < i), isvsvn < (levels[j]'(by omega)).isvsvn

structure QeMatches (doc : QeIdDoc) (r : EnclaveReport) : Prop where
  maskSize : doc.miscselectMask.length = 4
  valueSize : doc.miscselect.length = 4
  /-- MISCSELECT: the report's value under the identity's mask equals the identity's value (little-endian 32 bit) -/
  miscselect : le32 doc.miscselect = r.miscSelect &&& le32 doc.miscselectMask
  attrMaskSize : doc.attributesMask.length = r.attributes.length
  /-- ATTRIBUTES: byte-wise mask applied to the report's attributes -/
  attributes : doc.attributes = applyMask doc.attributesMask r.attributes
  mrsigner : doc.mrsigner = r.mrSigner
  isvProdId : r.isvProdId = doc.isvProdId
  /-- the first level not above the report's ISVSVN exists and is UpToDate -/
  level : ∃ l, FirstQeLevel doc.levels r.isvSvn l ∧ upToDate l = true

theorem find_first_iff (levels : List TcbLevelF) (isvsvn : Nat) (l : TcbLevelF) :
    levels.find? (fun l => decide (l.isvsvn ≤ isvsvn)) = some l ↔ FirstQeLevel levels isvsvn l := by
  rw [List.find?_eq_some_iff_getElem]
  unfold FirstQeLevel
  simp only [decide_eq_true_eq, Bool.not_eq_true', decide_eq_false_iff_not, Nat.not_le]
  constructor
  · rintro ⟨h1, i, hi, e, hf⟩; exact ⟨i, hi, e, h1, hf⟩
  · rintro ⟨i, hi, e, h1, hf⟩; exact ⟨h1, i, hi, e, hf⟩

/-- **C07, main statement** for `verifyQeReport`: for all mask contents and all level lists. -/
theorem qe_accept_iff (doc : QeIdDoc) (r : EnclaveReport) : qeReportCheck doc r = .ok () ↔ QeMatches doc r := by
  unfold qeReportCheck qeStatusCheck
  rw [runChecks_bind_ok]
  simp only [List.mem_cons, List.not_mem_nil, or_false, forall_eq_or_imp, forall_eq, beq_iff_eq]
  constructor
  · rintro ⟨⟨a, b, c, d, e, f, g⟩, h⟩
    cases hf : doc.levels.find? (fun l => decide (l.isvsvn ≤ r.isvSvn)) with
    | none => rw [hf] at h; cases h
    | some l =>
      rw [hf] at h
      simp only at h
      by_cases hu : upToDate l = true
      · exact ⟨a, b, c, d, e, f, g, l, (find_first_iff ..).mp hf, hu⟩
      · simp [hu] at h
  · intro m
    refine ⟨⟨m.maskSize, m.valueSize, m.miscselect, m.attrMaskSize, m.attributes, m.mrsigner, m.isvProdId⟩, ?_⟩
    obtain ⟨l, hl, hu⟩ := m.level
    rw [(find_first_iff ..).mpr hl]
    simp [hu]

/-- if no level matches, verification fails -/
theorem no_level_is_error (doc : QeIdDoc) (r : EnclaveReport) (hnone : ∀ l ∈ doc.levels, r.isvSvn < l.isvsvn) :
    qeReportCheck doc r ≠ .ok () := by
  intro h
  obtain ⟨l, ⟨i, hi, e, hle, _⟩, _⟩ := ((qe_accept_iff doc r).mp h).level
  have := hnone l (e ▸ List.getElem_mem hi)
  omega

/-- report bits outside the mask do not matter; identity bits outside the mask can never match -/
theorem applyMask_spec (mask v : Bytes) (h : mask.length = v.length) :
    (applyMask mask v).length = mask.length ∧
    ∀ i (h1 : i < mask.length) (h2 : i < v.length) (h3 : i < (applyMask mask v).length),
      (applyMask mask v)[i] = mask[i] &&& v[i] := by
  unfold applyMask
  refine ⟨by simp [h], ?_⟩
  intro i h1 h2 h3
  simp [List.getElem_zipWith]

/-- **C07 for whole calls.** -/
theorem accept_implies_qe_identity (C : Crypto) (w : World) (q : Option QuoteV4) (o : Opts)
    (hg : o.getCollateral = true) (h : (tdxQuote Fixes.all C w q o).verdict = .ok ()) :
    ∃ (q' : QuoteV4) (c : Collateral), q = some q' ∧
      QeMatches c.qe (((qeCertData q').getD default).qeReport.getD default) := by
  obtain ⟨q', ch, ext, col, rfl, hc, hch, hext, hf, hev⟩ := ((tdxQuote_ok_iff C w q o).mp h).witness
  obtain ⟨c, hcol, _⟩ := hev.collateral hg
  subst hcol
  exact ⟨q', c, rfl, (qe_accept_iff _ _).mp (hev.tcb c rfl).2⟩

/-- the seven status strings are the only ones a level can carry, and only one of them passes -/
theorem only_up_to_date_passes (l : TcbLevelF) : upToDate l = true ↔ l.status = "UpToDate" := by
  unfold upToDate; simp

theorem statuses_distinct :
    [pcs_TcbComponentStatusUpToDate, pcs_TcbComponentStatusSwHardeningNeeded, pcs_TcbComponentStatusConfigurationNeeded,
     pcs_TcbComponentStatusConfigurationAndSWHardeningNeeded, pcs_TcbComponentStatusOutOfDate,
     pcs_TcbComponentStatusOutOfDateConfigurationNeeded, pcs_TcbComponentStatusRevoked] =
    ["UpToDate", "SWHardeningNeeded", "ConfigurationNeeded", "ConfigurationAndSWHardeningNeeded", "OutOfDate",
     "OutOfDateConfigurationNeeded", "Revoked"] := by decide

/-! ### non-vacuity -/
def doc0 : QeIdDoc :=
  { miscselect := [1, 0, 0, 0], miscselectMask := [0x0f, 0, 0, 0], attributes := [0x10], attributesMask := [0xf0], mrsigner := [7],
    isvProdId := 2, levels := [{ isvsvn := 9, status := "OutOfDate" }, { isvsvn := 4, status := "UpToDate" }] }
def rep0 : EnclaveReport := { (default : EnclaveReport) with miscSelect := 0xf1, attributes := [0x1f], mrSigner := [7], isvProdId := 2, isvSvn := 5 }
example : qeReportCheck doc0 rep0 = .ok () := by decide
example : QeMatches doc0 rep0 := (qe_accept_iff _ _).mp (by decide)

end Tdx.Props.C07
