/-
  C08 — policy validation accepts exactly the quotes that meet every stated expectation.
  Property theorems only (helper lemmas: TdxProofs/Lemmas/Validate.lean).
-/
import TdxModel.Validate
import TdxProofs.Lemmas.Validate

namespace Tdx.Props.C08
open Tdx Tdx.Gen Tdx.Abi Tdx.Validate

/-- an exact-match expectation: unset or empty means unchecked; otherwise the option has the field's
    size and equals the quote's field -/
def Exact (size : Nat) (opt : Option Bytes) (field : Bytes) : Prop :=
  obytes opt = [] ∨ ((obytes opt).length = size ∧ obytes opt = field)

/-- the declarative reading of "the quote meets every configured expectation" -/
structure Meets (h : Header) (t : TdQuoteBody) (o : Options) : Prop where
  qeVendorId    : Exact 16 o.qeVendorId h.qeVendorId
  mrSeam        : Exact 48 o.mrSeam t.mrSeam
  tdAttributes  : Exact 8 o.tdAttributes t.tdAttributes
  xfam          : Exact 8 o.xfam t.xfam
  mrTd          : Exact 48 o.mrTd t.mrTd
  mrConfigId    : Exact 48 o.mrConfigId t.mrConfigId
  mrOwner       : Exact 48 o.mrOwner t.mrOwner
  mrOwnerConfig : Exact 48 o.mrOwnerConfig t.mrOwnerConfig
  reportData    : Exact 64 o.reportData t.reportData
  /-- RTMRs: no list, or four entries each of which is empty or equals the quote's RTMR of that index -/
  rtmrs : o.rtmrs = [] ∨ (o.rtmrs.length = 4 ∧
            ∀ j (hj : j < o.rtmrs.length), o.rtmrs[j] = [] ∨ (o.rtmrs[j].length = 48 ∧ t.rtmrs[j]? = some o.rtmrs[j]))
  /-- allowed MR_TD values: no list, or some entry is empty (matches anything — observation O-2) or equals MR_TD -/
  anyMrTd : o.anyMrTd = [] ∨ ∃ e ∈ o.anyMrTd, e = [] ∨ (e.length = 48 ∧ e = t.mrTd)
  /-- TEE_TCB_SVN: unset/empty, or 16 bytes each not above the quote's component -/
  minTeeTcbSvn : obytes o.minimumTeeTcbSvn = [] ∨
      ∃ (hl : (obytes o.minimumTeeTcbSvn).length = 16) (ht : t.teeTcbSvn.length = 16),
        ∀ j (hj : j < 16), (obytes o.minimumTeeTcbSvn)[j] ≤ t.teeTcbSvn[j]
  minQeSvn  : o.minimumQeSvn ≤ le16 h.qeSvn
  minPceSvn : o.minimumPceSvn ≤ le16 h.pceSvn
  xfamFixed1 : ∀ i, i < 64 → xfamFixed1.getLsbD i = true → (le64 t.xfam).getLsbD i = true
  xfamFixed0 : ∀ i, i < 64 → (le64 t.xfam).getLsbD i = true → xfamFixed0.getLsbD i = true
  tdFixed1   : ∀ i, i < 64 → tdAttrFixed1.getLsbD i = true → (le64 t.tdAttributes).getLsbD i = true
  tdFixed0   : ∀ i, i < 64 → (le64 t.tdAttributes).getLsbD i = true → tdAttrFixed0.getLsbD i = true

/-- the masks are the documented ones -/
theorem masks_are_documented :
    xfamFixed1 = 0x3#64 ∧ xfamFixed0 = 0x0006DBE7#64 ∧ tdAttrFixed1 = 0#64 ∧
    tdAttrFixed0 = (1#64 ||| 1#64 <<< 28 ||| 1#64 <<< 30 ||| 1#64 <<< 63) := by decide

theorem minVersionCheck_ok_iff (h : Header) (t : TdQuoteBody) (o : Options)
    (hq : h.qeSvn.length = 2) (hp : h.pceSvn.length = 2) (ht : t.teeTcbSvn.length = 16) :
    minVersionCheck' true h t o = .ok () ↔
      (obytes o.minimumTeeTcbSvn = [] ∨
        ∃ (hl : (obytes o.minimumTeeTcbSvn).length = 16) (ht : t.teeTcbSvn.length = 16),
          ∀ j (hj : j < 16), (obytes o.minimumTeeTcbSvn)[j] ≤ t.teeTcbSvn[j]) ∧
      o.minimumQeSvn ≤ le16 h.qeSvn ∧ o.minimumPceSvn ≤ le16 h.pceSvn := by
  unfold minVersionCheck'
  simp only [↓reduceIte, gen_const]
  by_cases h0 : olen o.minimumTeeTcbSvn = 0
  · have he : obytes o.minimumTeeTcbSvn = [] := List.eq_nil_of_length_eq_zero h0
    have hsvn : isSvnHigherOrEqual t.teeTcbSvn o.minimumTeeTcbSvn = .ok true := by simp [isSvnHigherOrEqual, h0]
    rw [guard_true (by simp [h0]), bind_eq hsvn, guard_true rfl, bind_eq (goLE16_of_len2 _ hq),
      bind_eq (goLE16_of_len2 _ hp), tail_ok_iff]
    simp [he]
  · have hne : obytes o.minimumTeeTcbSvn ≠ [] := fun e => h0 (by unfold olen; unfold obytes at e; rw [e]; rfl)
    by_cases h16 : olen o.minimumTeeTcbSvn = 16
    · have hl : (obytes o.minimumTeeTcbSvn).length = 16 := h16
      obtain ⟨b, hb, hspec⟩ := svnLoop_spec t.teeTcbSvn 0 (obytes o.minimumTeeTcbSvn) (by omega)
      have hsvn : isSvnHigherOrEqual t.teeTcbSvn o.minimumTeeTcbSvn = .ok b := by
        simp [isSvnHigherOrEqual, h0, hb]
      simp only [Nat.zero_add] at hspec
      rw [guard_true (by simp [h16]), bind_eq hsvn]
      cases b with
      | false =>
        rw [guard_false rfl]
        constructor
        · intro x; cases x
        · rintro ⟨hh | ⟨_, _, hall⟩, _⟩
          · exact absurd hh hne
          · have : ∀ j (hj : j < t.teeTcbSvn.length), (obytes o.minimumTeeTcbSvn)[j]'(by omega) ≤ t.teeTcbSvn[j] :=
              fun j hj => hall j (by omega)
            exact absurd (hspec.mpr this) (by simp)
      | true =>
        have hall := hspec.mp rfl
        have hall' : ∃ (hl : (obytes o.minimumTeeTcbSvn).length = 16) (ht : t.teeTcbSvn.length = 16),
            ∀ j (hj : j < 16), (obytes o.minimumTeeTcbSvn)[j] ≤ t.teeTcbSvn[j] :=
          ⟨hl, ht, fun j hj => hall j (by omega)⟩
        rw [guard_true rfl, bind_eq (goLE16_of_len2 _ hq), bind_eq (goLE16_of_len2 _ hp), tail_ok_iff]
        constructor
        · intro x; exact ⟨Or.inr hall', x⟩
        · intro x; exact x.2
    · rw [guard_false (by simp [h0, h16])]
      constructor
      · intro x; cases x
      · rintro ⟨hh | ⟨hl, _, _⟩, _⟩
        · exact absurd hh hne
        · exact absurd hl h16

/-- **Main statement.** Validation succeeds exactly when the message is structurally valid and meets
    every configured expectation — for every message and every options value. -/
theorem validate_ok_iff_meets (q : QuoteV4) (o : Options) :
    validate (some q) (some o) = .ok () ↔
      checkQuoteV4 (some q) = .ok () ∧ Meets (q.header.getD default) (q.tdQuoteBody.getD default) o := by
  unfold validate validate'
  simp only
  cases hc : checkQuoteV4 (some q) with
  | err e => simp [bind]
  | panic => exact absurd hc (checkQuoteV4_np _)
  | ok u =>
    cases u
    obtain ⟨hH, hT, _⟩ := checkQuoteV4_ok hc
    obtain ⟨hd, ehd, hq, hp, hven, _, _, _, _⟩ := checkHeader_ok hH
    obtain ⟨t, et, ht1, ht2, _, _, ht5, ht6, ht7, ht8, ht9, ht10, ht11, _⟩ := checkTDQuoteBody_ok hT
    simp only [bind, true_and]
    unfold validateChecked'
    rw [ehd, et]
    simp only [Option.getD_some]
    rw [combine_ok_iff]
    simp only [List.mem_cons, List.not_mem_nil, or_false, forall_eq_or_imp, forall_eq]
    unfold exactByteMatch
    rw [combine_ok_iff]
    simp only [List.mem_cons, List.not_mem_nil, or_false, forall_eq_or_imp, forall_eq, gen_const,
      byteCheck_ok_iff, byteCheckRtmr_ok_iff _ _ _ ht11, byteCheckAny_ok_iff,
      minVersionCheck_ok_iff hd t o hq hp ht1,
      validateMask_ok_iff 8 t.xfam _ _ ht6 (by decide), validateMask_ok_iff 8 t.tdAttributes _ _ ht5 (by decide)]
    constructor
    · rintro ⟨⟨a1, a2, a3, a4, a5, a6, a7, a8, a9, a10, a11⟩, ⟨b1, b2, b3⟩, ⟨c1, c2⟩, ⟨d1, d2⟩⟩
      exact ⟨a11, a1, a2, a3, a4, a5, a6, a7, a10, a8, a9, b1, b2, b3, c1, c2, d1, d2⟩
    · intro m
      exact ⟨⟨m.mrSeam, m.tdAttributes, m.xfam, m.mrTd, m.mrConfigId, m.mrOwner, m.mrOwnerConfig, m.rtmrs, m.anyMrTd,
        m.reportData, m.qeVendorId⟩, ⟨m.minTeeTcbSvn, m.minQeSvn, m.minPceSvn⟩, ⟨m.xfamFixed1, m.xfamFixed0⟩, ⟨m.tdFixed1, m.tdFixed0⟩⟩


/-- For every message (absent sub-messages, fields of any length, any number of RTMRs) and every options
    value (nil, empty, wrongly sized entries) validation returns success or an error: it never crashes. -/
theorem validate_never_panics (q : Option QuoteV4) (o : Option Options) : validate q o ≠ .panic := by
  unfold validate validate'
  cases o with
  | none => simp
  | some o =>
    simp only
    refine bind_ne_panic (checkQuoteV4_np q) fun u hc => ?_
    cases q with
    | none => simp
    | some q =>
      cases u
      obtain ⟨hH, hT, _⟩ := checkQuoteV4_ok hc
      obtain ⟨hd, ehd, hq, hp, _⟩ := checkHeader_ok hH
      obtain ⟨t, et, ht1, _, _, _, _, _, _, _, _, _, ht11, _⟩ := checkTDQuoteBody_ok hT
      simp only
      unfold validateChecked'
      rw [ehd, et]
      simp only [Option.getD_some]
      refine combine_ne_panic _ fun r hr => ?_
      simp only [List.mem_cons, List.not_mem_nil, or_false] at hr
      rcases hr with rfl | rfl | rfl | rfl
      · unfold exactByteMatch
        refine combine_ne_panic _ fun r hr => ?_
        simp only [List.mem_cons, List.not_mem_nil, or_false] at hr
        rcases hr with rfl | rfl | rfl | rfl | rfl | rfl | rfl | rfl | rfl | rfl | rfl
        all_goals first | exact byteCheck_ne_panic _ _ _ | exact byteCheckAny_ne_panic _ _ _ | exact byteCheckRtmr_ne_panic _ _ _ ht11
      · unfold minVersionCheck'
        simp only [↓reduceIte, gen_const]
        refine guard_bind_ne_panic fun hg => ?_
        have hsz : olen o.minimumTeeTcbSvn = 0 ∨ olen o.minimumTeeTcbSvn = 16 := by simpa using hg
        have hsvn : ∃ b, isSvnHigherOrEqual t.teeTcbSvn o.minimumTeeTcbSvn = .ok b := by
          unfold isSvnHigherOrEqual
          rcases hsz with h0 | h16
          · exact ⟨true, by simp [h0]⟩
          · obtain ⟨b, hb, _⟩ := svnLoop_spec t.teeTcbSvn 0 (obytes o.minimumTeeTcbSvn) (by have : (obytes o.minimumTeeTcbSvn).length = 16 := h16; omega)
            exact ⟨b, by simp [h16, hb]⟩
        obtain ⟨b, hb⟩ := hsvn
        rw [bind_eq hb]
        refine guard_bind_ne_panic fun _ => ?_
        rw [bind_eq (goLE16_of_len2 _ hq), bind_eq (goLE16_of_len2 _ hp)]
        refine guard_bind_ne_panic fun _ => ?_
        exact guard_ne_panic _ _
      · exact validateMask_ne_panic _ _ _ _
      · exact validateMask_ne_panic _ _ _ _

/-- Corollary: a quote that misses a configured expectation is never accepted. -/
theorem miss_is_rejected (q : QuoteV4) (o : Options)
    (h : ¬ Meets (q.header.getD default) (q.tdQuoteBody.getD default) o) : ∃ e, validate (some q) (some o) = .err e := by
  cases hv : validate (some q) (some o) with
  | ok u => cases u; exact absurd ((validate_ok_iff_meets q o).mp hv).2 h
  | err e => exact ⟨e, rfl⟩
  | panic => exact absurd hv (validate_never_panics _ _)

/-! ### the pinned tree (finding F7): `isSvnHigherOrEqual` indexes a short option -/

theorem unfixed_witness_min_tee_tcb_svn_empty (quoteSvn : Bytes) (h : quoteSvn ≠ []) :
    isSvnHigherOrEqualUnfixed quoteSvn (some []) = .panic := by
  cases quoteSvn with
  | nil => exact absurd rfl h
  | cons q qs => simp [isSvnHigherOrEqualUnfixed, svnLoop]

theorem unfixed_witness_min_tee_tcb_svn_short :
    isSvnHigherOrEqualUnfixed (zeros 16) (some [0, 0, 0]) = .panic := by decide

theorem fixed_rejects_short_min_tee_tcb_svn (h : Header) (t : TdQuoteBody) :
    ∃ e, minVersionCheck' true h t { minimumTeeTcbSvn := some [0, 0, 0] } = .err e := by
  refine ⟨"MinimumTeeTcbSvn size", ?_⟩
  unfold minVersionCheck'
  simp only [↓reduceIte]
  exact guard_false (by decide)

/-! ### non-vacuity: a concrete message and options that meet, and one that misses -/

def hdr0 : Header := ⟨4, 2, 0x81, [5, 0], [7, 0], zeros 16, zeros 20⟩
def body0 : TdQuoteBody :=
  ⟨zeros 16, zeros 48, zeros 48, zeros 8, zeros 8, [3, 0, 0, 0, 0, 0, 0, 0], zeros 48, zeros 48, zeros 48, zeros 48,
   [zeros 48, zeros 48, zeros 48, zeros 48], zeros 64⟩
def opts0 : Options := { minimumQeSvn := 7, minimumPceSvn := 5, mrTd := some (zeros 48), rtmrs := [[], zeros 48, [], []] }

example : validateChecked' true ⟨some hdr0, some body0, 0, none, []⟩ opts0 = .ok () := by decide +kernel
example : (validateChecked' true ⟨some hdr0, some body0, 0, none, []⟩ { opts0 with minimumQeSvn := 8 }).isErr = true := by decide +kernel

end Tdx.Props.C08
