/-
  C13 — PCK extension values extracted exactly.

  "For every PCK certificate whose SGX extension encodes a PPID, sixteen component SVNs, a PCE SVN,
   a CPU SVN, a PCE-ID and an FMSPC, extraction returns exactly those values, whatever the order of
   the elements; a value that does not fit its field, a wrongly sized octet string, a missing SGX
   extension or malformed ASN.1 yields an error, never a silently wrong value."

  The theorems are about `Tdx.PckExt.pckCertificateExtensions` (TdxModel/PckExt.lean), the
  Go-faithful model of `pcs.PckCertificateExtensions` over the *decoded* ASN.1 tree of the SGX
  extension value; DER decoding itself is `encoding/asn1`'s and is a parameter (the harness
  decodes every generated certificate with `encoding/asn1` and compares model and code).

  Vocabulary (TdxProofs/Lemmas/PckExt.lean):
  * `Vals` / `Vals.WF`   a value assignment: PPID 16 bytes, 16 component bytes (= 0..255 each),
                          PCESVN ≤ 65535, CPUSVN 16 bytes, PCE-ID 2 bytes, FMSPC 6 bytes;
  * `tcbElems v`          the 18 TCB elements `SEQUENCE{OID …2.k, value}` in canonical order;
  * `sgxElems v w tcb`    the PPID / TCB / PCE-ID / FMSPC sub-extensions around a TCB element list
                          `tcb`; `w : Wrap` says for each octet-string item whether its value is the
                          bytes themselves or a DER OCTET STRING of them (O-4b);
  * `Unknown t`           a well-formed sub-extension with any other OID (Intel's certificates carry
                          several: SGX type, platform instance id, configuration …);
  * `SgxIs c sgx`         the first extension of `c` with the SGX id decodes to `SEQUENCE sgx`;
  * `IsTcbItem t tcb`     `t`'s first two fields are the TCB OID and `SEQUENCE tcb`;
  * `WrongSize b n`       neither `b` nor a value wrapped in `b` has `n` bytes;
  * `expected v`          the `PckExtensions` value holding exactly `v` (hex strings for the three items).

  O-4 (DESIGN.md §7) is modelled as the code behaves and is *not* covered by an error theorem: a
  TCB sequence of 18 elements in which a component OID is absent leaves that component 0, an SGX
  sequence of ≥ 4 elements without some item leaves it empty (`o4_*` examples at the end).
-/
import TdxProofs.Lemmas.PckExt

namespace Tdx.Props.C13
open Tdx Tdx.PckExt

/-- **Exactness, order independence.**  For every value assignment `v`, every permutation `tcb` of
    the 18 TCB elements, every permutation `sgx` of the four sub-extensions together with any number
    of unknown sub-extensions, each octet-string item plain or wrapped, and every certificate with
    six extensions whose SGX extension decodes to `SEQUENCE sgx` with nothing after it: extraction
    returns exactly `v`. -/
theorem extraction_exact (v : Vals) (hv : v.WF) (w : Wrap) (tcb sgx extra : List Asn1)
    (hσ : tcb.Perm (tcbElems v)) (hπ : sgx.Perm (sgxElems v w tcb ++ extra)) (hx : ∀ t ∈ extra, Unknown t)
    (c : Cert) (hn : c.exts.length = Gen.pcs_pckCertExtensionSize)
    (hf : findMatchingExtension c.exts oidSgx = some (.tree (.seq sgx) false)) :
    pckCertificateExtensions c = .ok (expected v) := by
  unfold pckCertificateExtensions
  simp [hn, hf, unmarshalRawSeq, extractSgxExtensions_perm v hv w tcb sgx extra hσ hπ hx]

/-- **A value that does not fit its field.**  A component element (OID …2.1 – …2.16) whose INTEGER is
    negative or above 255, or a PCESVN element whose INTEGER is negative or above 65535, at any
    position of the TCB sequence of a TCB item at any position of the SGX sequence — whatever else the
    certificate contains — makes extraction fail. -/
theorem out_of_range_is_error (c : Cert) (sgx tcb : List Asn1) (t e : Asn1) (o : List Nat) (x : Int) (rest : List Asn1)
    (hc : SgxIs c sgx) (ht : t ∈ sgx) (htcb : IsTcbItem t tcb) (he : e ∈ tcb)
    (hse : seqElems e = some (.oid o :: .int x :: rest))
    (hbad : ((∃ i, i < nComps ∧ o = compOid (i + 1)) ∧ (x < 0 ∨ x > 255)) ∨ (o = oidPCESvn ∧ (x < 0 ∨ x > 65535))) :
    ∃ m, pckCertificateExtensions c = .err m := by
  refine cert_err_of_bad_tcb_elem hc ht htcb he fun s => ?_
  unfold tcbStep
  rw [unmarshalATV_fields hse]
  by_cases hany : anyOk (.int x) = true
  · rcases hbad with ⟨⟨i, hi, rfl⟩, hx⟩ | ⟨rfl, hx⟩
    · simp [hany, compIndex_comp hi, asn1U8, hx]
    · simp [hany, compIndex_pce, asn1U16, hx]
  · simp [hany]

/-- **A wrongly sized octet string (PPID, PCE-ID, FMSPC).**  An item with one of the three OIDs whose
    OCTET STRING is wrongly sized — neither it nor a value wrapped in it has the item's size — at any
    position of the SGX sequence makes extraction fail. -/
theorem wrong_size_is_error (c : Cert) (sgx : List Asn1) (t : Asn1) (o : List Nat) (b : Bytes) (rest : List Asn1)
    (hc : SgxIs c sgx) (ht : t ∈ sgx) (hse : seqElems t = some (.oid o :: .octets b :: rest))
    (hbad : (o = oidPPID ∧ WrongSize b ppidSize) ∨ (o = oidPCEID ∧ WrongSize b pceidSize) ∨ (o = oidFMSPC ∧ WrongSize b fmspcSize)) :
    ∃ m, pckCertificateExtensions c = .err m := by
  have item : ∀ n, n < 128 → WrongSize b n → ∃ e, extractOctetItem t n = .err e := by
    intro n hn hw
    obtain ⟨e, he⟩ := asn1OctetString_wrongSize hn hw
    exact ⟨e, by simp [extractOctetItem, unmarshalExtension, hse, he]⟩
  refine cert_err_of_bad_elem hc ht (sgxStep_err_of_item_err hse ?_)
  rcases hbad with ⟨ho, hw⟩ | ⟨ho, hw⟩ | ⟨ho, hw⟩
  · exact .inl ⟨ho, item _ sizes_small.1 hw⟩
  · exact .inr (.inl ⟨ho, item _ sizes_small.2.1 hw⟩)
  · exact .inr (.inr ⟨ho, item _ sizes_small.2.2 hw⟩)

/-- **A wrongly sized CPUSVN.**  (No wrapping tolerance there.) -/
theorem wrong_size_cpusvn_is_error (c : Cert) (sgx tcb : List Asn1) (t e : Asn1) (b : Bytes) (rest : List Asn1)
    (hc : SgxIs c sgx) (ht : t ∈ sgx) (htcb : IsTcbItem t tcb) (he : e ∈ tcb)
    (hse : seqElems e = some (.oid oidCPUSvn :: .octets b :: rest)) (hbad : b.length ≠ cpuSvnSize) :
    ∃ m, pckCertificateExtensions c = .err m := by
  refine cert_err_of_bad_tcb_elem hc ht htcb he fun s => ?_
  have h2 : oidCPUSvn ≠ oidPCESvn := by decide
  unfold tcbStep
  rw [unmarshalATV_fields hse]
  simp [anyOk, compIndex_cpu, h2, hbad]

/-- What an octet-string item can yield at all (sizes < 128, as all three are): the value itself when
    it has the wanted size, or the content of the DER OCTET STRING `04 size …` it consists of —
    never anything else ("never a silently wrong value"). -/
theorem octet_item_sound (b r : Bytes) (size : Nat) (hs : size < 128) (h : asn1OctetString b size = .ok r) :
    (b.length = size ∧ r = b) ∨ (r.length = size ∧ b = 4 :: UInt8.ofNat size :: r) :=
  asn1OctetString_ok hs h

/-- **A missing SGX extension.** -/
theorem missing_sgx_extension_is_error (c : Cert) (h : ∀ e ∈ c.exts, e.1 ≠ oidSgx) :
    ∃ m, pckCertificateExtensions c = .err m := by
  have hf : findMatchingExtension c.exts oidSgx = none := by
    unfold findMatchingExtension
    rw [Option.map_eq_none_iff, List.find?_eq_none]
    intro e he
    simpa using h e he
  unfold pckCertificateExtensions
  split
  · exact ⟨_, rfl⟩
  · rw [hf]; exact ⟨_, rfl⟩

/-- A certificate that does not have exactly six extensions is refused. -/
theorem wrong_extension_count_is_error (c : Cert) (h : c.exts.length ≠ Gen.pcs_pckCertExtensionSize) :
    ∃ m, pckCertificateExtensions c = .err m := by
  unfold pckCertificateExtensions
  rw [if_pos h]; exact ⟨_, rfl⟩

/-- **Wrong ASN.1 type in an integer field.**  A component or PCESVN element whose value is not an
    INTEGER (OCTET STRING, ENUMERATED, BOOLEAN, SEQUENCE, anything) makes extraction fail. -/
theorem wrong_type_is_error (c : Cert) (sgx tcb : List Asn1) (t e : Asn1) (o : List Nat) (x : Asn1) (rest : List Asn1)
    (hc : SgxIs c sgx) (ht : t ∈ sgx) (htcb : IsTcbItem t tcb) (he : e ∈ tcb)
    (hse : seqElems e = some (.oid o :: x :: rest))
    (ho : (∃ i, i < nComps ∧ o = compOid (i + 1)) ∨ o = oidPCESvn) (hx : ∀ n, x ≠ .int n) :
    ∃ m, pckCertificateExtensions c = .err m := by
  refine cert_err_of_bad_tcb_elem hc ht htcb he fun s => ?_
  have h8 : ∃ m, asn1U8 x = .err m := by
    unfold asn1U8; split
    · exact absurd rfl (hx _)
    · exact ⟨_, rfl⟩
  have h16 : ∃ m, asn1U16 x = .err m := by
    unfold asn1U16; split
    · exact absurd rfl (hx _)
    · exact ⟨_, rfl⟩
  obtain ⟨m8, h8⟩ := h8
  obtain ⟨m16, h16⟩ := h16
  unfold tcbStep
  rw [unmarshalATV_fields hse]
  by_cases hany : anyOk x = true
  · rcases ho with ⟨i, hi, rfl⟩ | rfl
    · simp [hany, compIndex_comp hi, h8]
    · simp [hany, compIndex_pce, h16]
  · simp [hany]

/-- **Wrong ASN.1 type for CPUSVN**: anything but an OCTET STRING. -/
theorem wrong_type_cpusvn_is_error (c : Cert) (sgx tcb : List Asn1) (t e : Asn1) (x : Asn1) (rest : List Asn1)
    (hc : SgxIs c sgx) (ht : t ∈ sgx) (htcb : IsTcbItem t tcb) (he : e ∈ tcb)
    (hse : seqElems e = some (.oid oidCPUSvn :: x :: rest)) (hx : ∀ b, x ≠ .octets b) :
    ∃ m, pckCertificateExtensions c = .err m := by
  refine cert_err_of_bad_tcb_elem hc ht htcb he fun s => ?_
  have h2 : oidCPUSvn ≠ oidPCESvn := by decide
  unfold tcbStep
  rw [unmarshalATV_fields hse]
  by_cases hany : anyOk x = true
  · cases x with
    | octets b => exact absurd rfl (hx b)
    | _ => simp [hany, compIndex_cpu, h2]
  · simp [hany]

/-- **Wrong ASN.1 type for PPID / PCE-ID / FMSPC**: a second field that is neither an OCTET STRING nor
    a (well-formed) BOOLEAN `critical` flag — e.g. an INTEGER — makes extraction fail. -/
theorem wrong_type_item_is_error (c : Cert) (sgx : List Asn1) (t : Asn1) (o : List Nat) (x : Asn1) (rest : List Asn1)
    (hc : SgxIs c sgx) (ht : t ∈ sgx) (hse : seqElems t = some (.oid o :: x :: rest))
    (ho : o = oidPPID ∨ o = oidPCEID ∨ o = oidFMSPC) (hx : ∀ b, x ≠ .octets b) (hb : x ≠ .bool true) :
    ∃ m, pckCertificateExtensions c = .err m := by
  have hext : ∃ m, unmarshalExtension t = .err m := by
    unfold unmarshalExtension
    rw [hse]
    split
    · rename_i h; simp only [Option.some.injEq, List.cons.injEq] at h; exact absurd h.2.1 hb
    · rename_i h; simp only [Option.some.injEq, List.cons.injEq] at h; exact absurd h.2.1 (hx _)
    · exact ⟨_, rfl⟩
  have item : ∀ n, ∃ m, extractOctetItem t n = .err m := fun n => by
    obtain ⟨m, hm⟩ := hext
    exact ⟨m, by simp [extractOctetItem, hm]⟩
  refine cert_err_of_bad_elem hc ht (sgxStep_err_of_item_err hse ?_)
  rcases ho with ho | ho | ho
  · exact .inl ⟨ho, item _⟩
  · exact .inr (.inl ⟨ho, item _⟩)
  · exact .inr (.inr ⟨ho, item _⟩)

/-- **Wrong ASN.1 type for the TCB value**: an element with the TCB OID whose value is not a clean
    SEQUENCE makes extraction fail. -/
theorem wrong_type_tcb_is_error (c : Cert) (sgx : List Asn1) (t : Asn1) (x : Asn1) (rest : List Asn1)
    (hc : SgxIs c sgx) (ht : t ∈ sgx) (hse : seqElems t = some (.oid oidTCB :: x :: rest)) (hx : ∀ l, x ≠ .seq l) :
    ∃ m, pckCertificateExtensions c = .err m := by
  refine cert_err_of_bad_elem hc ht (sgxStep_err_of_extractTcb_err hse ?_)
  cases t with
  | seq l =>
    simp only [seqElems, Option.some.injEq] at hse
    subst hse
    cases rest with
    | nil =>
      cases x with
      | seq l => exact absurd rfl (hx l)
      | _ => simp [extractTcb, unmarshalRawSeq]
    | cons a rest => simp [extractTcb, unmarshalRawSeq]
  | seqJunk l => simp [extractTcb, unmarshalRawSeq]
  | _ => simp [seqElems] at hse

/-- **Malformed ASN.1.**  Each of the following makes extraction fail: the extension value is not a
    framed TLV; bytes follow the SGX SEQUENCE; the value is not a clean SEQUENCE; some element of the SGX
    sequence is not an AttributeTypeAndValue (not a SEQUENCE, fewer than two fields, first field no
    well-formed OID, second field with content its type rejects or an INTEGER beyond 64 bits); some
    element of the TCB sequence is not one. -/
theorem malformed_asn1_is_error (c : Cert) :
    (findMatchingExtension c.exts oidSgx = some .derError → ∃ m, pckCertificateExtensions c = .err m) ∧
    (∀ t, findMatchingExtension c.exts oidSgx = some (.tree t true) → ∃ m, pckCertificateExtensions c = .err m) ∧
    (∀ t tr, findMatchingExtension c.exts oidSgx = some (.tree t tr) → (∀ l, t ≠ .seq l) → ∃ m, pckCertificateExtensions c = .err m) ∧
    (∀ sgx t, SgxIs c sgx → t ∈ sgx → (∃ m, unmarshalATV t = .err m) → ∃ m, pckCertificateExtensions c = .err m) ∧
    (∀ sgx tcb t e, SgxIs c sgx → t ∈ sgx → IsTcbItem t tcb → e ∈ tcb → (∃ m, unmarshalATV e = .err m) →
      ∃ m, pckCertificateExtensions c = .err m) := by
  refine ⟨?_, ?_, ?_, ?_, ?_⟩
  · intro hf
    unfold pckCertificateExtensions
    split
    · exact ⟨_, rfl⟩
    · rw [hf]; exact ⟨_, rfl⟩
  · intro t hf
    unfold pckCertificateExtensions
    split
    · exact ⟨_, rfl⟩
    · rw [hf]
      cases h : unmarshalRawSeq t with
      | ok l => simp [h]
      | err e => simp [h]
      | panic => exact absurd h (unmarshalRawSeq_ne_panic t)
  · intro t tr hf hns
    unfold pckCertificateExtensions
    split
    · exact ⟨_, rfl⟩
    · rw [hf]
      cases t with
      | seq l => exact absurd rfl (hns l)
      | _ => exact ⟨_, rfl⟩
  · intro sgx t hc ht ⟨m, hm⟩
    exact cert_err_of_bad_elem hc ht fun s => ⟨m, by simp [sgxStep, hm]⟩
  · intro sgx tcb t e hc ht htcb he ⟨m, hm⟩
    exact cert_err_of_bad_tcb_elem hc ht htcb he fun s => ⟨m, by simp [tcbStep, hm]⟩

/-- which elements are no AttributeTypeAndValue (the premise of the last two clauses above, spelled out) -/
theorem not_atv_iff (t : Asn1) :
    (∃ m, unmarshalATV t = .err m) ↔ ¬ ∃ o x rest, seqElems t = some (.oid o :: x :: rest) ∧ anyOk x = true := by
  constructor
  · rintro ⟨m, hm⟩ ⟨o, x, rest, hse, hany⟩
    rw [unmarshalATV_fields hse, hany] at hm
    cases hm
  · intro h
    rcases ne_panic_cases (unmarshalATV_ne_panic t) with ⟨⟨o, x⟩, hr⟩ | h'
    · exfalso
      unfold unmarshalATV at hr
      split at hr
      · rename_i o' x' rest hse
        split at hr
        · exact h ⟨o', x', rest, hse, ‹_›⟩
        · cases hr
      · cases hr
    · exact h'

/-- **No input makes the extraction crash.** -/
theorem extract_never_panics (c : Cert) : pckCertificateExtensions c ≠ .panic :=
  pckCertificateExtensions_ne_panic c

/-- Hence every certificate yields a value or an error. -/
theorem value_or_error (c : Cert) :
    (∃ r, pckCertificateExtensions c = .ok r) ∨ ∃ m, pckCertificateExtensions c = .err m :=
  cert_ok_or_err c

/-! ### non-vacuity: a concrete certificate, reversed TCB order, SGX order reversed with the unknown element moved, one unknown
    ENUMERATED sub-extension (as in Intel's certificates), FMSPC wrapped (O-4b) -/

def v0 : Vals :=
  { ppid := [0, 1, 2, 3, 4, 5, 6, 7, 8, 9, 10, 11, 12, 13, 14, 15]
    comps := [5, 5, 2, 2, 3, 1, 0, 3, 128, 200, 255, 127, 0, 0, 9, 1]
    pcesvn := 65535
    cpusvn := [5, 5, 2, 2, 3, 1, 0, 3, 128, 200, 255, 127, 0, 0, 9, 1]
    pceid := [0, 0]
    fmspc := [0x50, 0x80, 0x6f, 0, 0, 0] }

theorem v0_wf : v0.WF := ⟨by decide, by decide, by decide, by decide, by decide, by decide⟩

def w0 : Wrap := { ppid := false, pceid := false, fmspc := true }
def tcb0 : List Asn1 := (tcbElems v0).reverse
def extra0 : List Asn1 := [.seq [.oid (oidSgx ++ [5]), .enum 0]]
def sgx0 : List Asn1 := (extra0 ++ sgxElems v0 w0 tcb0).reverse

def cert0 : Cert :=
  { exts := [([2, 5, 29, 15], .tree .other false), ([2, 5, 29, 19], .tree .other false), ([2, 5, 29, 14], .tree .other false),
             ([2, 5, 29, 35], .tree .other false), ([2, 5, 29, 31], .tree .other false), (oidSgx, .tree (.seq sgx0) false)] }

theorem extra0_unknown : ∀ t ∈ extra0, Unknown t := by
  intro t ht
  simp only [extra0, List.mem_cons, List.not_mem_nil, or_false] at ht
  subst ht
  exact ⟨oidSgx ++ [5], .enum 0, [], rfl, rfl, by decide, by decide, by decide, by decide⟩

/-- the hypotheses of `extraction_exact` are satisfiable, and its conclusion is what evaluating the
    model on the concrete tree gives -/
theorem cert0_extracts : pckCertificateExtensions cert0 = .ok (expected v0) :=
  extraction_exact v0 v0_wf w0 tcb0 sgx0 extra0 (List.reverse_perm _) ((List.reverse_perm _).trans List.perm_append_comm) extra0_unknown cert0 rfl rfl

example : (expected v0).tcb.comps = [5, 5, 2, 2, 3, 1, 0, 3, 128, 200, 255, 127, 0, 0, 9, 1] ∧ (expected v0).tcb.pcesvn = 65535 ∧
    (expected v0).fmspc = "50806f000000" := by decide

/-- direct evaluation of the model agrees -/
example : pckCertificateExtensions cert0 = .ok (expected v0) := by decide

/-- replace one element of `cert0`'s TCB sequence / SGX sequence -/
def cert0With (tcbEdit sgxEdit : List Asn1 → List Asn1) (trailing : Bool := false) : Cert :=
  { exts := [([2, 5, 29, 15], .tree .other false), ([2, 5, 29, 19], .tree .other false), ([2, 5, 29, 14], .tree .other false),
             ([2, 5, 29, 35], .tree .other false), ([2, 5, 29, 31], .tree .other false),
             (oidSgx, .tree (.seq (sgxEdit (sgxElems v0 w0 (tcbEdit tcb0) ++ extra0))) trailing)] }

/-- component 9 (position 9 of the reversed sequence `tcb0`) encoded as 256 -/
def tcb256 : List Asn1 := tcb0.take 9 ++ .seq [.oid (compOid 9), .int 256] :: tcb0.drop 10
def certComp256 : Cert := cert0With (fun _ => tcb256) id

/-- `out_of_range_is_error` applies to a concrete certificate (and evaluation agrees) -/
example : ∃ m, pckCertificateExtensions certComp256 = .err m :=
  out_of_range_is_error certComp256 (sgxElems v0 w0 tcb256 ++ extra0) tcb256 (tcbElem tcb256)
    (.seq [.oid (compOid 9), .int 256]) (compOid 9) 256 []
    ⟨false, rfl⟩ (by simp [sgxElems]) ⟨[], rfl⟩ (by simp [tcb256]) rfl (.inl ⟨⟨8, by decide, rfl⟩, by decide⟩)

example : (pckCertificateExtensions certComp256).isErr = true := by decide
example : (pckCertificateExtensions (cert0With (fun l => l.set 9 (.seq [.oid (compOid 9), .int (-1)])) id)).isErr = true := by decide
example : (pckCertificateExtensions (cert0With (fun l => l.set 1 (.seq [.oid oidPCESvn, .int 65536])) id)).isErr = true := by decide
example : (pckCertificateExtensions (cert0With (fun l => l.set 9 (.seq [.oid (compOid 9), .octets [7]])) id)).isErr = true := by decide
/-- a 7-byte FMSPC, a wrapped 5-byte FMSPC -/
example : (pckCertificateExtensions (cert0With id (fun l => l.set 3 (.seq [.oid oidFMSPC, .octets [1, 2, 3, 4, 5, 6, 7]])))).isErr = true := by decide
example : (pckCertificateExtensions (cert0With id (fun l => l.set 3 (.seq [.oid oidFMSPC, .octets [4, 5, 1, 2, 3, 4, 5]])))).isErr = true := by decide
example : WrongSize [4, 5, 1, 2, 3, 4, 5] fmspcSize := ⟨by decide, fun inner _ h => by simp [fmspcSize] at h⟩
/-- INTEGER where the FMSPC octets belong; trailing bytes; no SGX extension -/
example : (pckCertificateExtensions (cert0With id (fun l => l.set 3 (.seq [.oid oidFMSPC, .int 5])))).isErr = true := by decide
example : (pckCertificateExtensions (cert0With id id true)).isErr = true := by decide
example : ∃ m, pckCertificateExtensions { exts := cert0.exts.map fun e => (e.1 ++ [1], e.2) } = .err m :=
  missing_sgx_extension_is_error _ (by decide)

/-! ### O-4, as the code behaves (not errors today) -/

/-- a TCB sequence of 18 elements in which component 9 is replaced by an unknown OID: component 9 is 0 -/
example : (pckCertificateExtensions (cert0With (fun l => l.set 9 (.seq [.oid (compOid 19), .int 77])) id)) =
    .ok { expected v0 with tcb := { expectedTcb v0 with comps := v0.comps.set 8 0 } } := by decide

/-- an SGX sequence of four elements without FMSPC: the FMSPC is the empty string -/
example : (pckCertificateExtensions (cert0With id (fun l => l.eraseIdx 3))) = .ok { expected v0 with fmspc := "" } := by decide

end Tdx.Props.C13
