/-
  C05 — revoked or unverifiable certificates are never accepted when revocation is on.
-/
import TdxModel.Verify
import TdxProofs.Lemmas.Verify

namespace Tdx.Props.C05
open Tdx Tdx.Gen Tdx.Abi Tdx.Verify

/-- what acceptance with `CheckRevocations` establishes -/
structure RevocationClean (w : World) (o : Opts) : Prop where
  witness : ∃ (ch : Chain) (c : Collateral) (ca : String) (cs crt : Nat) (pckCrl rootCrl : CrlF),
    extractChain w.chainPem = .ok ch ∧
    -- both CRLs were obtained: the PCK CRL from the PCK-CRL endpoint of the leaf's issuing CA, the Root CA CRL from a
    -- distribution point of the QE-identity issuer root
    (∃ h, w.fetchPckCrl (pckCrlURL ca) = .resp h (some pckCrl)) ∧ extractCa (cert w ch.leaf) = .ok ca ∧
    (∃ u ∈ (cert w c.qeRoot).crlDPs, w.fetchRootCrl u = some (some rootCrl)) ∧
    c.pckCrl = some (cs, crt, pckCrl) ∧ c.rootCrl = some rootCrl ∧
    -- the Root CA CRL is issued and signed by the chain's root, the PCK CRL by the chain's intermediate CA — the issuer of the leaf
    CrlOk rootCrl (cert w ch.root) ∧ CrlOk pckCrl (cert w ch.inter) ∧ pckCrl.issuer = (cert w ch.leaf).issuer ∧
    -- none of the four serials is listed
    (cert w ch.leaf).serial ∉ pckCrl.revoked ∧ (cert w ch.inter).serial ∉ rootCrl.revoked ∧
    (cert w c.tcbSigner).serial ∉ rootCrl.revoked ∧ (cert w c.qeSigner).serial ∉ rootCrl.revoked ∧
    -- and the Root CA CRL is also authentic under the root of each response's issuer chain
    CrlOk rootCrl (cert w c.tcbRoot) ∧ CrlOk rootCrl (cert w c.qeRoot)

/-- **C05, main statement.** -/
theorem revocation_accept_implies (C : Crypto) (w : World) (q : Option QuoteV4) (o : Opts)
    (hcr : o.checkRevocations = true) (h : (tdxQuote Fixes.all C w q o).verdict = .ok ()) :
    o.getCollateral = true ∧ RevocationClean w o := by
  obtain ⟨q', ch, ext, col, rfl, _, hch, hext, hf, hev⟩ := ((tdxQuote_ok_iff C w q o).mp h).witness
  have hc := chainChecks_all w ch o _ col hev.chain
  obtain ⟨hg, ⟨c, rootCrl, cs, crt, pckCrl, hcol, hr, hp, a, b, c1, c2, c3⟩⟩ := hc.revocation hcr
  refine ⟨hg, ?_⟩
  subst hcol
  rcases hf with ⟨hg', _⟩ | ⟨_, ca, c', hca, hob, hc'⟩
  · rw [hg] at hg'; cases hg'
  · cases hc'
    have ob := obtainCollateral_ok w ext.fmspc ca o.checkRevocations c hob
    obtain ⟨hd, cs', crt', pckCrl', rootCrl', f1, _, f3, f4, u, hu, f5⟩ := ob.crls hcr
    rw [hp] at f3; cases f3
    rw [hr] at f4; cases f4
    obtain ⟨c', hc', _, ht, hq⟩ := hev.collateral hg
    cases hc'
    have t := (tcbInfoChecks_all C w o _ c ht).response.revocation hcr
    have qq := (qeIdentityChecks_all C w o _ c hq).response.revocation hcr
    obtain ⟨_, crl1, e1, t1, t2⟩ := t
    obtain ⟨_, crl2, e2, q1, q2⟩ := qq
    rw [hr] at e1 e2; cases e1; cases e2
    exact ⟨ch, c, ca, cs, crt, pckCrl, rootCrl, hch, ⟨hd, f1⟩, hca, ⟨u, hu, f5⟩, hp, hr, a, b, c1, c3, c2, t2, q2, t1, q1⟩

/-- Asking for revocation checks without collateral fetching always fails. -/
theorem revocation_without_collateral_rejects (C : Crypto) (w : World) (q : Option QuoteV4) (o : Opts)
    (hcr : o.checkRevocations = true) (hgc : o.getCollateral = false) :
    (tdxQuote Fixes.all C w q o).verdict ≠ .ok () := by
  intro h
  have := (revocation_accept_implies C w q o hcr h).1
  rw [hgc] at this; cases this

/-- If a CRL cannot be fetched or parsed the quote is rejected: a failing PCK-CRL fetch. -/
theorem pck_crl_unavailable_rejects (C : Crypto) (w : World) (q : Option QuoteV4) (o : Opts)
    (hcr : o.checkRevocations = true)
    (hfail : ∀ ca, w.fetchPckCrl (pckCrlURL ca) = .fail ∨ ∃ h, w.fetchPckCrl (pckCrlURL ca) = .resp h none) :
    (tdxQuote Fixes.all C w q o).verdict ≠ .ok () := by
  intro h
  obtain ⟨_, ⟨ch, c, ca, cs, crt, pckCrl, rootCrl, _, ⟨hd, hf⟩, _⟩⟩ := revocation_accept_implies C w q o hcr h
  rcases hfail ca with h1 | ⟨h', h1⟩ <;> rw [h1] at hf <;> cases hf

/-- … a Root CA CRL that no distribution point delivers in parseable form. -/
theorem root_crl_unavailable_rejects (C : Crypto) (w : World) (q : Option QuoteV4) (o : Opts)
    (hcr : o.checkRevocations = true) (hfail : ∀ u, w.fetchRootCrl u = none ∨ w.fetchRootCrl u = some none) :
    (tdxQuote Fixes.all C w q o).verdict ≠ .ok () := by
  intro h
  obtain ⟨_, ⟨ch, c, ca, cs, crt, pckCrl, rootCrl, _, _, _, ⟨u, _, hf⟩, _⟩⟩ := revocation_accept_implies C w q o hcr h
  rcases hfail u with h1 | h1 <;> rw [h1] at hf <;> cases hf

/-- … a CRL that is not authentic: every CRL the world can deliver as PCK CRL is signed by a key other than the
    intermediate's (or carries another issuer name). -/
theorem unauthentic_pck_crl_rejects (C : Crypto) (w : World) (q : Option QuoteV4) (o : Opts) (ch : Chain)
    (hcr : o.checkRevocations = true) (hch : extractChain w.chainPem = .ok ch)
    (hbad : ∀ ca h crl, w.fetchPckCrl (pckCrlURL ca) = .resp h (some crl) →
      crl.signedBy ≠ (cert w ch.inter).keyId ∨ crl.issuer ≠ (cert w ch.inter).subject) :
    (tdxQuote Fixes.all C w q o).verdict ≠ .ok () := by
  intro h
  obtain ⟨_, ⟨ch', c, ca, cs, crt, pckCrl, rootCrl, hch', ⟨hd, hf⟩, _, _, _, _, _, hok, _⟩⟩ := revocation_accept_implies C w q o hcr h
  rw [hch] at hch'; cases hch'
  rcases hbad ca hd pckCrl hf with h1 | h1
  · exact h1 hok.signed.2.1
  · exact h1 hok.issuer

/-- Serial scans are membership in lists of any length. -/
theorem listed_leaf_rejected (C : Crypto) (w : World) (q : Option QuoteV4) (o : Opts) (ch : Chain)
    (hcr : o.checkRevocations = true) (hch : extractChain w.chainPem = .ok ch)
    (hlisted : ∀ ca h crl, w.fetchPckCrl (pckCrlURL ca) = .resp h (some crl) → (cert w ch.leaf).serial ∈ crl.revoked) :
    (tdxQuote Fixes.all C w q o).verdict ≠ .ok () := by
  intro h
  obtain ⟨_, ⟨ch', c, ca, cs, crt, pckCrl, rootCrl, hch', ⟨hd, hf⟩, _, _, _, _, _, _, _, hnot, _⟩⟩ := revocation_accept_implies C w q o hcr h
  rw [hch] at hch'; cases hch'
  exact hnot (hlisted ca hd pckCrl hf)

end Tdx.Props.C05
