/-
  A concrete, fully honest attestation world in the model — the shared non-vacuity witness of the
  verification group (C01–C07, C11, C12): the hypotheses "the call is accepted", "the world is honest",
  "revocation checking is on" … of the property theorems are satisfied by it at all three checking levels.

  The quote is the fully populated message of C09 (distinct bytes in every field) with a TEE_TCB_SVN whose
  second byte is non-zero (the TDX-module branch is taken) and a QE report data that is the hash binding under
  the example `Crypto`; the PCK leaf carries the concrete SGX extension tree of C13 (reversed TCB order, one
  unknown sub-extension, wrapped FMSPC).  The `Crypto` accepts every signature and hashes to zeros: enough to
  *satisfy* the hypotheses (the theorems themselves quantify over every `Crypto`).
-/
import TdxModel.Verify
import TdxProofs.Props.C09
import TdxProofs.Props.C13

namespace Tdx.Example
open Tdx Tdx.Gen Tdx.Abi Tdx.Verify

def exCrypto : Crypto :=
  { onCurve := fun _ => true, verifyRaw := fun _ _ _ => true, verifyCert := fun _ _ _ => true, sha256 := fun _ => zeros 32 }

/-- platform TEE_TCB_SVN: module ISVSVN 3, module version 1, then fourteen components -/
def tee0 : Bytes := [3, 1] ++ List.replicate 14 2

def q0 : QuoteV4 :=
  let s := Props.C09.sampleQuote
  { s with
    tdQuoteBody := s.tdQuoteBody.map fun t => { t with teeTcbSvn := tee0 }
    signedData := s.signedData.map fun sd =>
      { sd with certificationData := sd.certificationData.map fun cd =>
          { cd with qeReportCertData := cd.qeReportCertData.map fun qc =>
              { qc with qeReport := qc.qeReport.map fun r => { r with reportData := zeros 64 } } } } }

/-! certificates: 0 root, 1 intermediate (Platform CA), 2 PCK leaf, 3 TCB signer; all valid on [0, 1000] -/
def rootC : CertF :=
  { subjectCN := verify_rootCertPhrase, issuerCN := verify_rootCertPhrase, subject := 10, issuer := 10, serial := 1, notBefore := 0,
    notAfter := 1000, canSignCert := true, canSignCrl := true, keyId := 1, signedBy := 1, crlDPs := ["https://crl.example/root.der"] }
def interC : CertF :=
  { subjectCN := verify_intermediateCertPhrase, issuerCN := verify_rootCertPhrase, subject := 11, issuer := 10, serial := 2, notBefore := 0,
    notAfter := 1000, canSignCert := true, canSignCrl := true, keyId := 2, signedBy := 1 }
def leafC : CertF :=
  { subjectCN := verify_pckCertPhrase, issuerCN := verify_platformIssuer, subject := 12, issuer := 11, serial := 3, notBefore := 0,
    notAfter := 1000, keyId := 3, signedBy := 2, pck := Props.C13.cert0 }
def signerC : CertF :=
  { subjectCN := verify_tcbSigningPhrase, issuerCN := verify_rootCertPhrase, subject := 13, issuer := 10, serial := 4, notBefore := 0,
    notAfter := 1000, keyId := 4, signedBy := 1 }

def comps0 : List Nat := [5, 5, 2, 2, 3, 1, 0, 3, 128, 200, 255, 127, 0, 0, 9, 1]

def tcbDoc0 : TcbInfoDoc :=
  { id := verify_tcbInfoID, version := verify_tcbInfoVersion, nextUpdate := 1000, fmspc := "50806F000000", pceId := "0000",
    modMrsigner := List.replicate 48 7, modMask := List.replicate 8 0x0f, modAttributes := List.replicate 8 8,
    identities := [⟨"TDX_02", [{ isvsvn := 0, status := "Revoked" }]⟩,
                   ⟨"TDX_01", [{ isvsvn := 4, status := "OutOfDate" }, { isvsvn := 3, status := "UpToDate" }, { isvsvn := 0, status := "Revoked" }]⟩],
    levels := [{ sgx := comps0.map (· + 1), pcesvn := 65535, tdx := List.replicate 16 0, status := "OutOfDate" },   -- above the platform
               { sgx := comps0, pcesvn := 65535, tdx := [200, 200] ++ List.replicate 14 2, status := "UpToDate" },    -- first match (from index 2)
               { sgx := List.replicate 16 0, pcesvn := 0, tdx := List.replicate 16 0, status := "Revoked" }] }

def qeDoc0 : QeIdDoc :=
  { id := verify_qeIdentityID, version := verify_qeIdentityVersion, nextUpdate := 1000,
    miscselect := [0x78, 0x56, 0x04, 0x02], miscselectMask := [0xff, 0xff, 0x0f, 0x0f],
    attributes := List.replicate 16 8, attributesMask := List.replicate 16 0x0f,
    mrsigner := List.replicate 32 27, isvProdId := 0x0102,
    levels := [{ isvsvn := 0x0400, status := "UpToDate" }, { isvsvn := 0x0304, status := "UpToDate" }, { isvsvn := 0, status := "OutOfDate" }] }

def sig0 : String := String.ofList (List.replicate 128 'a')

def issuerHdr (signer : Nat) : HdrF := .blocks [some ⟨true, 7, false, some signer⟩, some ⟨true, 0, false, some 0⟩]

def w0 : World :=
  { certs := [rootC, interC, leafC, signerC]
    chainPem := some [some ⟨true, 20, false, some 2⟩, some ⟨true, 10, false, some 1⟩, some ⟨true, 1, true, some 0⟩]   -- trailing NUL
    pool := some [0]
    embeddedRoot := 9
    fetchTcb := fun u => if u == tcbInfoURL "50806f000000" then
        .resp (issuerHdr 3) ⟨true, sig0, tcbDoc0, some [1, 2, 3], some tcbDoc0, false⟩ else .fail
    fetchQe := fun u => if u == qeIdentityURL then
        .resp (issuerHdr 3) ⟨true, sig0, qeDoc0, some [4, 5], some qeDoc0, false⟩ else .fail
    fetchPckCrl := fun u => if u == pckCrlURL verify_platformIssuerID then
        .resp (issuerHdr 1) (some ⟨11, 2, [30, 300], 1000⟩) else .fail
    fetchRootCrl := fun u => if u == "https://crl.example/root.der" then some (some ⟨10, 1, [20, 40], 1000⟩) else none
    clock := 500 }

def base : Opts := ⟨false, false, none⟩
def withCollateral : Opts := ⟨false, true, some ⟨400, 500, 600, 700, 800⟩⟩
def withRevocation : Opts := ⟨true, true, some ⟨1000, 1000, 1000, 1000, 1000⟩⟩   -- every window's last instant

/-- the world is accepted at every checking level … -/
theorem accepted_base : (tdxQuote Fixes.all exCrypto w0 (some q0) base).verdict = .ok () := by decide +kernel
theorem accepted_collateral : (tdxQuote Fixes.all exCrypto w0 (some q0) withCollateral).verdict = .ok () := by decide +kernel
theorem accepted_revocation : (tdxQuote Fixes.all exCrypto w0 (some q0) withRevocation).verdict = .ok () := by decide +kernel

/-- … fetching exactly the four documents, in order, when everything is checked -/
example : (tdxQuote Fixes.all exCrypto w0 (some q0) withRevocation).urls =
    [tcbInfoURL "50806f000000", qeIdentityURL, pckCrlURL verify_platformIssuerID, "https://crl.example/root.der"] := by decide +kernel
example : (tdxQuote Fixes.all exCrypto w0 (some q0) base).urls = [] := by decide +kernel

/-- … and is not accepted once something that counts is wrong: one instant later, the leaf revoked, a foreign pool -/
example : (tdxQuote Fixes.all exCrypto w0 (some q0) ⟨true, true, some ⟨1001, 1000, 1000, 1000, 1000⟩⟩).verdict ≠ .ok () := by decide +kernel
example : (tdxQuote Fixes.all exCrypto { w0 with fetchPckCrl := fun _ => .resp (issuerHdr 1) (some ⟨11, 2, [3], 1000⟩) } (some q0) withRevocation).verdict ≠ .ok () := by
  decide +kernel
example : (tdxQuote Fixes.all exCrypto { w0 with pool := some [3] } (some q0) base).verdict ≠ .ok () := by decide +kernel
example : (tdxQuote Fixes.all exCrypto { w0 with pool := none } (some q0) base).verdict ≠ .ok () := by decide +kernel

end Tdx.Example
