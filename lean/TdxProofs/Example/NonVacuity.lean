/-
  Non-vacuity of the verification-group theorems: their hypotheses ("the call is accepted", "collateral /
  revocation checking is on", "the world is honest") hold of the concrete world of `TdxProofs.Example.World`, so
  every one of the statements below says something about at least one real situation.  (That the *model* accepts
  this world is `accepted_*`, proved by kernel evaluation; that such worlds are what the real code accepts is the
  business of the correspondence runs.)
-/
import TdxProofs.Example.World
import TdxProofs.Props.C01
import TdxProofs.Props.C02
import TdxProofs.Props.C03
import TdxProofs.Props.C04
import TdxProofs.Props.C05
import TdxProofs.Props.C06
import TdxProofs.Props.C07
import TdxProofs.Props.C11
import TdxProofs.Props.C12

namespace Tdx.Example
open Tdx Tdx.Verify Tdx.Props

-- C01: the three links hold of the accepted example (at each level)
example := C01.accept_implies_links exCrypto w0 (some q0) base accepted_base
example := C01.accept_implies_links exCrypto w0 (some q0) withRevocation accepted_revocation
-- C02: its chain is anchored in the pool
example := C02.accept_implies_anchored exCrypto w0 (some q0) withCollateral accepted_collateral
-- C03: the collateral values used are the signed ones
example := C03.values_are_signed_values exCrypto w0 (some q0) withCollateral rfl accepted_collateral
-- C04: identity fields match, first matching platform level and module level UpToDate (TEE_TCB_SVN[1] = 1: module branch)
example := C04.accept_implies_tcb exCrypto w0 (some q0) withCollateral rfl accepted_collateral
-- C05: revocation checking on, nothing listed, CRLs authentic
example := C05.revocation_accept_implies exCrypto w0 (some q0) withRevocation rfl accepted_revocation
-- C06: every artifact in date at its own entry (here: the last instant of every window)
example := C06.accept_implies_in_date exCrypto w0 (some q0) withRevocation accepted_revocation
example := C06.accept_implies_in_date exCrypto w0 (some q0) withCollateral accepted_collateral
-- C07: QE identity matches (partial masks), first level with isvsvn ≤ 0x0304 is the second one, UpToDate
example := C07.accept_implies_qe_identity exCrypto w0 (some q0) withCollateral rfl accepted_collateral
-- C11: the example is an honest world in the sense of the theorem's hypothesis
example := C11.accepted_is_honest exCrypto w0 q0 withRevocation accepted_revocation
-- C12: the lattice premise is satisfiable; the conclusions are the two lower levels
example := C12.more_checks_never_accept_more exCrypto w0 (some q0) (some ⟨1000, 1000, 1000, 1000, 1000⟩) accepted_revocation
example : (tdxQuote Fixes.all exCrypto w0 (some q0) base).nowAfter = none := C12.options_unchanged ..

end Tdx.Example
