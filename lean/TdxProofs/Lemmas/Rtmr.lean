/-
  Helper lemmas for C17 (TdxModel.Rtmr): number parsing on 0–3, the entry search, ordered insertion,
  name lookup, and the effect of go-configfs-tsm's `ExtendDigest` on a well-formed TSM.
-/
import TdxModel.Rtmr

namespace Tdx.Rtmr
open Tdx

/-! ### numbers -/

theorem kstrtouint_itoa (n : Nat) (h : n ≤ 3) : kstrtouint (itoa n) = some n := by
  have : n = 0 ∨ n = 1 ∨ n = 2 ∨ n = 3 := by omega
  rcases this with rfl | rfl | rfl | rfl <;> decide

theorem kstrtouint_nil : kstrtouint [] = none := by decide

theorem kstrtouint_lt {b : Bytes} {v : Nat} (h : kstrtouint b = some v) : v < 2 ^ 64 := by
  unfold kstrtouint at h
  split at h
  · cases h
  · split at h
    · split at h
      · cases h; assumption
      · cases h
    · cases h

theorem goInt_eq_iff (v n : Nat) (hv : v < 2 ^ 64) (hn : n < 2 ^ 63) : goInt v = (n : Int) ↔ v = n := by
  unfold goInt
  split <;> omega

/-! ### search -/

theorem validateIndex_iff (e : Entry) (n : Nat) (hn : n < 2 ^ 63) (hd : e.isDir = true) :
    validateIndex e n = true ↔ e.bound = some n := by
  unfold validateIndex Entry.bound
  simp only [hd, if_true]
  cases e.index with
  | none => simp
  | some b =>
    simp only [Option.bind_some]
    cases hk : kstrtouint b with
    | none => simp
    | some v =>
      have := kstrtouint_lt hk
      simp [goInt_eq_iff v n this hn]

/-- the search returns the first entry (in `ReadDir` order) that the TSM has bound to the index -/
theorem search_eq_find (n : Nat) (hn : n < 2 ^ 63) (es : List Entry) :
    (search (n : Int) es).2 = es.find? (fun e => e.bound == some n) := by
  induction es with
  | nil => rfl
  | cons e es ih =>
    unfold search
    by_cases hd : e.isDir = true
    · simp only [hd, if_true]
      by_cases hv : validateIndex e n = true
      · have := (validateIndex_iff e n hn hd).mp hv
        simp [hv, this]
      · have hb : e.bound ≠ some n := fun h => hv ((validateIndex_iff e n hn hd).mpr h)
        simp [hv, hb, ih]
    · have hb : e.bound = none := by simp [Entry.bound, hd]
      simp [hd, hb, ih]

/-- the search only reads `index` attributes -/
theorem search_ops (want : Int) (es : List Entry) :
    ∀ o ∈ (search want es).1, ∃ nm, o = Op.readFile nm .index := by
  induction es with
  | nil => intro o h; cases h
  | cons e es ih =>
    unfold search
    split
    · split
      · intro o h
        simp only [List.mem_singleton] at h
        exact ⟨_, h⟩
      · intro o h
        rcases List.mem_cons.mp h with rfl | h
        · exact ⟨_, rfl⟩
        · exact ih o h
    · exact ih

theorem digestWrites_search (want : Int) (es : List Entry) : digestWrites (search want es).1 = [] := by
  unfold digestWrites
  rw [List.filterMap_eq_nil_iff]
  intro o h
  obtain ⟨nm, rfl⟩ := search_ops want es o h
  rfl

theorem indexWrites_search (want : Int) (es : List Entry) : indexWrites (search want es).1 = [] := by
  unfold indexWrites
  rw [List.filterMap_eq_nil_iff]
  intro o h
  obtain ⟨nm, rfl⟩ := search_ops want es o h
  rfl

theorem mkdirs_search (want : Int) (es : List Entry) : mkdirs (search want es).1 = [] := by
  unfold mkdirs
  rw [List.filterMap_eq_nil_iff]
  intro o h
  obtain ⟨nm, rfl⟩ := search_ops want es o h
  rfl

/-! ### ordered insertion, lookup -/

theorem mem_ins {e x : Entry} {es : List Entry} : x ∈ ins e es ↔ x = e ∨ x ∈ es := by
  induction es with
  | nil => simp [ins]
  | cons y ys ih =>
    unfold ins
    split
    · simp
    · simp only [List.mem_cons, ih]
      constructor
      · rintro (h | h | h) <;> simp [h]
      · rintro (h | h | h) <;> simp [h]

theorem length_ins (e : Entry) (es : List Entry) : (ins e es).length = es.length + 1 := by
  induction es with
  | nil => rfl
  | cons y ys ih =>
    unfold ins
    split <;> simp [ih]

theorem pairwise_ins {R : Entry → Entry → Prop} (sym : ∀ a b, R a b → R b a) {e : Entry} {es : List Entry}
    (h1 : ∀ x ∈ es, R e x) (h2 : es.Pairwise R) : (ins e es).Pairwise R := by
  induction es with
  | nil => simp [ins]
  | cons y ys ih =>
    unfold ins
    rw [List.pairwise_cons] at h2
    split
    · exact List.pairwise_cons.mpr ⟨h1, List.pairwise_cons.mpr h2⟩
    · refine List.pairwise_cons.mpr ⟨?_, ih (fun x hx => h1 x (List.mem_cons_of_mem _ hx)) h2.2⟩
      intro x hx
      rcases mem_ins.mp hx with rfl | hx
      · exact sym _ _ (h1 y (List.mem_cons_self ..))
      · exact h2.1 x hx

theorem find_name_of_mem {es : List Entry} (hn : es.Pairwise fun a b => a.name ≠ b.name) {e : Entry}
    (he : e ∈ es) : es.find? (fun x => x.name == e.name) = some e := by
  induction es with
  | nil => cases he
  | cons x xs ih =>
    rw [List.pairwise_cons] at hn
    rcases List.mem_cons.mp he with rfl | hm
    · simp
    · have : x.name ≠ e.name := hn.1 e hm
      simp [this, ih hn.2 hm]

theorem find_name_none {es : List Entry} {n : Name} (h : ∀ x ∈ es, x.name ≠ n) :
    es.find? (fun x => x.name == n) = none := by
  rw [List.find?_eq_none]
  intro x hx
  simpa using h x hx

/-! ### the effect of `rtmr.ExtendDigest` (go-configfs-tsm) on a well-formed TSM -/

theorem digestWrites_shape (ops : List Op) (h : digestWrites ops = []) (mid : List Op) (hm : digestWrites mid = [])
    (nm : Name) (d : Bytes) :
    digestWrites (Op.readDir :: ops ++ mid ++ [Op.writeFile nm .digest d]) = [(nm, d)] := by
  unfold digestWrites at *
  simp [List.filterMap_append, h, hm]

theorem indexWrites_create (ops : List Op) (h : indexWrites ops = []) (n : Nat) (nm : Name) (v d : Bytes) :
    indexWrites (Op.readDir :: ops ++ [Op.mkdirTemp n, Op.writeFile nm .index v] ++ [Op.writeFile nm .digest d]) = [(nm, v)] := by
  unfold indexWrites at *
  simp [List.filterMap_append, h]

theorem mkdirs_create (ops : List Op) (h : mkdirs ops = []) (n : Nat) (nm : Name) (v d : Bytes) :
    mkdirs (Op.readDir :: ops ++ [Op.mkdirTemp n, Op.writeFile nm .index v] ++ [Op.writeFile nm .digest d]) = [n] := by
  unfold mkdirs at *
  simp [List.filterMap_append, h]

theorem indexWrites_reuse (ops : List Op) (h : indexWrites ops = []) (nm : Name) (d : Bytes) :
    indexWrites (Op.readDir :: ops ++ [Op.writeFile nm .digest d]) = [] := by
  unfold indexWrites at *
  simp [List.filterMap_append, h]

theorem mkdirs_reuse (ops : List Op) (h : mkdirs ops = []) (nm : Name) (d : Bytes) :
    mkdirs (Op.readDir :: ops ++ [Op.writeFile nm .digest d]) = [] := by
  unfold mkdirs at *
  simp [List.filterMap_append, h]

theorem writeDigest_eq {H : Hash} {t : Tsm} {nm : Name} {e : Entry} {j : Nat} {d : Bytes}
    (hl : t.lookup nm = some e) (hb : e.bound = some j) (hd : d.length = digestLen) :
    t.writeDigest H nm d = some { t with regs := fun k => if k = j then extend H (t.regs j) d else t.regs k } := by
  simp [Tsm.writeDigest, hl, hb, hd]

theorem writeIndex_eq {t : Tsm} {nm : Name} {e : Entry} {v : Bytes} {j : Nat}
    (hl : t.lookup nm = some e) (hdir : e.isDir = true) (hk : kstrtouint v = some j)
    (hfree : ∀ x ∈ t.entries, x.bound ≠ some j) :
    t.writeIndex nm v = some { t with entries := t.entries.map (Entry.setIndex nm v) } := by
  have hany : (t.entries.any fun x => x.bound == some j) = false := by
    rw [List.any_eq_false]
    intro x hx
    simpa using hfree x hx
  simp [Tsm.writeIndex, hl, hdir, hk, hany]

theorem setIndex_name (nm : Name) (v : Bytes) (x : Entry) : (Entry.setIndex nm v x).name = x.name := by
  unfold Entry.setIndex; split <;> rfl

/-- the create path of `getRtmrInterface` followed by the digest write, on a well-formed TSM in which
    no entry is bound to `n` -/
theorem create_spec (H : Hash) (t : Tsm) (wf : WellFormed t) (n : Nat) (hn : n ≤ 3) (d : Bytes)
    (hd : d.length = digestLen) (hnone : ∀ x ∈ t.entries, x.bound ≠ some n) :
    ∃ t2 t3, (t.mkdirTemp n).1.writeIndex (t.mkdirTemp n).2 (itoa n) = some t2 ∧
      t2.writeDigest H (t.mkdirTemp n).2 d = some t3 ∧
      ExtendEffect H t n d ⟨t3, .ok (),
        Op.readDir :: (search (n : Int) t.entries).1 ++ [Op.mkdirTemp n, Op.writeFile (t.mkdirTemp n).2 .index (itoa n)]
          ++ [Op.writeFile (t.mkdirTemp n).2 .digest d]⟩ := by
  have hdw := digestWrites_search n t.entries
  have hiw := indexWrites_search n t.entries
  have hmk := mkdirs_search n t.entries
  have hnm : (t.mkdirTemp n).2 = t.tempName n := rfl
  have hent : (t.mkdirTemp n).1.entries = ins (t.newEntry n) t.entries := rfl
  have hnext : (t.mkdirTemp n).1.next = t.next + 1 := rfl
  have hregs : (t.mkdirTemp n).1.regs = t.regs := rfl
  have hnewname : (t.newEntry n).name = t.tempName n := rfl
  have hnewb : (t.newEntry n).bound = none := by simp [Tsm.newEntry, Entry.bound, kstrtouint_nil]
  have hfreshname : ∀ x ∈ t.entries, x.name ≠ t.tempName n := by
    intro x hx heq
    exact Nat.lt_irrefl _ (wf.fresh x hx n t.next heq)
  -- the TSM after MkdirTemp
  have hnames1 : (ins (t.newEntry n) t.entries).Pairwise fun a b => a.name ≠ b.name :=
    pairwise_ins (fun a b h => fun h' => h h'.symm) (fun x hx => (hfreshname x hx).symm) wf.names
  have hone1 : (ins (t.newEntry n) t.entries).Pairwise fun a b => ∀ j, a.bound = some j → b.bound ≠ some j :=
    pairwise_ins (fun a b h j hb ha => h j ha hb) (fun x _ j hj => by rw [hnewb] at hj; cases hj) wf.onePerIndex
  have hl1 : (t.mkdirTemp n).1.lookup (t.tempName n) = some (t.newEntry n) := by
    unfold Tsm.lookup
    rw [hent]
    exact find_name_of_mem (e := t.newEntry n) hnames1 (mem_ins.mpr (Or.inl rfl))
  have hnone1 : ∀ x ∈ (t.mkdirTemp n).1.entries, x.bound ≠ some n := by
    intro x hx
    rw [hent] at hx
    rcases mem_ins.mp hx with rfl | hx
    · rw [hnewb]; simp
    · exact hnone x hx
  have hk := kstrtouint_itoa n hn
  have hwi := writeIndex_eq hl1 rfl hk hnone1
  -- the entry after the index write
  let e' : Entry := { name := t.tempName n, isDir := true, index := some (itoa n) }
  have hfnew : Entry.setIndex (t.tempName n) (itoa n) (t.newEntry n) = e' := by
    simp [Entry.setIndex, Tsm.newEntry, e']
  have he'b : e'.bound = some n := by simp [e', Entry.bound, hk]
  have hfold : ∀ x ∈ t.entries, Entry.setIndex (t.tempName n) (itoa n) x = x := by
    intro x hx; unfold Entry.setIndex; rw [if_neg (hfreshname x hx)]
  have hl2 : ((ins (t.newEntry n) t.entries).map (Entry.setIndex (t.tempName n) (itoa n))).find?
      (fun x => x.name == t.tempName n) = some e' := by
    rw [List.find?_map]
    have : ((fun x => x.name == t.tempName n) ∘ Entry.setIndex (t.tempName n) (itoa n)) =
        fun x => x.name == t.tempName n := by
      funext x; simp [setIndex_name]
    have hl1' := hl1
    unfold Tsm.lookup at hl1'
    rw [hent] at hl1'
    rw [this, hl1', Option.map_some, hfnew]
  have hwd := writeDigest_eq (H := H)
    (t := { (t.mkdirTemp n).1 with entries := (t.mkdirTemp n).1.entries.map (Entry.setIndex (t.tempName n) (itoa n)) })
    (nm := t.tempName n) (e := e') (j := n) (d := d) (by unfold Tsm.lookup; simp only [hent]; exact hl2) he'b hd
  refine ⟨_, _, hwi, hwd, ?_⟩
  refine ⟨rfl, ⟨?_, ?_, ?_⟩, fun k => rfl, rfl, t.tempName n, e', hl2, he'b, ?_, ?_, ?_⟩
  · -- names stay distinct
    show List.Pairwise _ (List.map _ _)
    rw [List.pairwise_map]
    exact hnames1.imp (fun {a b} h => by rw [setIndex_name, setIndex_name]; exact h)
  · -- serials stay below `next`
    intro x hx i k hxk
    obtain ⟨y, hy, rfl⟩ := List.mem_map.mp hx
    rw [setIndex_name] at hxk
    rcases mem_ins.mp hy with rfl | hy
    · rw [hnewname] at hxk
      cases hxk
      exact Nat.lt_succ_self _
    · exact Nat.lt_succ_of_lt (wf.fresh y hy i k hxk)
  · -- still at most one entry per index
    show List.Pairwise _ (List.map _ _)
    rw [List.pairwise_map]
    refine (hnames1.and hone1).imp_of_mem ?_
    intro a b ha hb hab
    have key : ∀ x ∈ ins (t.newEntry n) t.entries,
        (x.name = t.tempName n ∧ Entry.setIndex (t.tempName n) (itoa n) x = e') ∨
        (x.name ≠ t.tempName n ∧ Entry.setIndex (t.tempName n) (itoa n) x = x ∧ x.bound ≠ some n) := by
      intro x hx
      rcases mem_ins.mp hx with rfl | hx'
      · exact Or.inl ⟨rfl, hfnew⟩
      · exact Or.inr ⟨hfreshname x hx', hfold x hx', hnone x hx'⟩
    intro j hja hjb
    rcases key a ha with ⟨han, hfa⟩ | ⟨han, hfa, hab'⟩ <;> rcases key b hb with ⟨hbn, hfb⟩ | ⟨hbn, hfb, hbb'⟩
    · exact hab.1 (han.trans hbn.symm)
    · rw [hfa, he'b] at hja
      rw [hfb] at hjb
      cases hja
      exact hbb' hjb
    · rw [hfb, he'b] at hjb
      rw [hfa] at hja
      cases hjb
      exact hab' hja
    · rw [hfa] at hja
      rw [hfb] at hjb
      exact hab.2 j hja hjb
  · have := digestWrites_shape _ hdw [Op.mkdirTemp n, Op.writeFile (t.tempName n) .index (itoa n)] rfl (t.tempName n) d
    simpa [List.append_assoc, hnm] using this
  · intro hb
    obtain ⟨x, hx, hxb⟩ := hb
    exact absurd hxb (hnone x hx)
  · intro _
    refine ⟨find_name_none hfreshname, ?_, ?_, ?_, ?_⟩
    · exact mkdirs_create _ hmk n _ _ d
    · exact indexWrites_create _ hiw n _ _ d
    · show (List.map _ (t.mkdirTemp n).1.entries).length = _
      rw [List.length_map, hent, length_ins]
    · intro x hx
      exact List.mem_map.mpr ⟨x, mem_ins.mpr (Or.inr hx), hfold x hx⟩

theorem lib_spec (H : Hash) (t : Tsm) (wf : WellFormed t) (n : Nat) (hn : n ≤ 3) (d : Bytes)
    (hd : d.length = digestLen) : ExtendEffect H t n d (libExtendDigest H t n d) := by
  have hn63 : n < 2 ^ 63 := by omega
  have hfind := search_eq_find n hn63 t.entries
  have hdw := digestWrites_search n t.entries
  have hiw := indexWrites_search n t.entries
  have hmk := mkdirs_search n t.entries
  unfold libExtendDigest
  have hneg : ¬ ((n : Int) < 0) := by omega
  simp only [hd, ne_eq, not_true_eq_false, if_false, hneg, Int.toNat_natCast]
  cases hf : t.entries.find? (fun e => e.bound == some n) with
  | some e =>
    -- an entry is bound: re-used
    rw [hf] at hfind
    have hmem : e ∈ t.entries := List.mem_of_find?_eq_some hf
    have hb : e.bound = some n := by simpa using List.find?_some hf
    have hl : t.lookup e.name = some e := find_name_of_mem wf.names hmem
    simp only [hfind, Tsm.writeDigest, hl, hb, hd, if_true]
    refine ⟨rfl, ⟨wf.names, wf.fresh, wf.onePerIndex⟩, fun k => rfl, rfl, e.name, e, hl, hb, ?_, ?_, ?_⟩
    · simpa using digestWrites_shape _ hdw [] rfl e.name d
    · intro _
      exact ⟨hl, rfl, mkdirs_reuse _ hmk _ d, indexWrites_reuse _ hiw _ d⟩
    · intro hnb
      exact absurd ⟨e, hmem, hb⟩ hnb
    | none =>
    -- none is bound: create, bind, extend
    rw [hf] at hfind
    have hnone : ∀ x ∈ t.entries, x.bound ≠ some n := by
      intro x hx
      have := List.find?_eq_none.mp hf x hx
      simpa using this
    obtain ⟨t2, t3, h2, h3, heff⟩ := create_spec H t wf n hn d hd hnone
    simp only [hfind, h2, h3]
    exact heff

end Tdx.Rtmr
