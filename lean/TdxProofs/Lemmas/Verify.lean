/- The refinement lemma of the verification pipeline: an accepting call decomposes into the facts of
   every stage, and conversely. All property theorems of C01–C07, C11, C12 are projections of this. -/
import TdxModel.Verify
import TdxProofs.Lemmas.Basic
import TdxProofs.Lemmas.AbiNoPanic

namespace Tdx.Verify
open Tdx Tdx.Gen Tdx.Abi

theorem runChecks_ok_iff (cs : List (Bool × String)) : runChecks cs = .ok () ↔ ∀ c ∈ cs, c.1 = true := by
  induction cs with
  | nil => simp [runChecks]
  | cons c rest ih =>
    obtain ⟨b, e⟩ := c
    unfold runChecks
    cases b <;> simp [ih]

theorem runChecks_ne_panic (cs : List (Bool × String)) : runChecks cs ≠ .panic := by
  induction cs with
  | nil => simp [runChecks]
  | cons c rest ih =>
    obtain ⟨b, e⟩ := c
    unfold runChecks
    cases b <;> simp [ih]

theorem runChecks_bind_ok {β} {cs : List (Bool × String)} {f : Unit → Outcome β} {r : β} :
    (runChecks cs >>= f) = .ok r ↔ (∀ c ∈ cs, c.1 = true) ∧ f () = .ok r := by
  constructor
  · intro h
    obtain ⟨u, h1, h2⟩ := bind_ok h
    cases u
    exact ⟨(runChecks_ok_iff cs).mp h1, h2⟩
  · intro ⟨h1, h2⟩
    rw [bind_eq ((runChecks_ok_iff cs).mpr h1)]
    exact h2

/-- the collateral a call works with: none without `GetCollateral`, otherwise what `obtainCollateral` returned -/
def Fetched (w : World) (o : Opts) (ch : Chain) (ext : PckExt.PckExtensions) (col : Option Collateral) : Prop :=
  (o.getCollateral = false ∧ col = none) ∨
  (o.getCollateral = true ∧ ∃ ca c, extractCa (cert w ch.leaf) = .ok ca ∧
      (obtainCollateral Fixes.all w ext.fmspc ca o.checkRevocations).2 = .ok c ∧ col = some c)

theorem fetchStage_ok_iff (w : World) (o : Opts) (ch : Chain) (ext : PckExt.PckExtensions) (col : Option Collateral) :
    (fetchStage Fixes.all w o ch ext).2 = .ok col ↔ Fetched w o ch ext col := by
  unfold fetchStage Fetched
  by_cases hg : o.getCollateral = true
  · simp only [hg, ↓reduceIte, Bool.true_eq_false, false_and, false_or, true_and]
    cases hca : extractCa (cert w ch.leaf) with
    | err e =>
      simp only
      constructor
      · intro h; cases h
      · rintro ⟨_, _, h, _⟩; cases h
    | panic =>
      simp only
      constructor
      · intro h; cases h
      · rintro ⟨_, _, h, _⟩; cases h
    | ok ca =>
      simp only
      cases hob : (obtainCollateral Fixes.all w ext.fmspc ca o.checkRevocations).2 with
      | err e =>
        simp only
        constructor
        · intro h; cases h
        · rintro ⟨ca', c', h1, h2, _⟩; cases h1; rw [hob] at h2; cases h2
      | panic =>
        simp only
        constructor
        · intro h; cases h
        · rintro ⟨ca', c', h1, h2, _⟩; cases h1; rw [hob] at h2; cases h2
      | ok c =>
        simp only [Outcome.ok.injEq]
        constructor
        · intro h; exact ⟨ca, c, rfl, hob, h.symm⟩
        · rintro ⟨ca', c', h1, h2, h3⟩
          cases h1; rw [hob] at h2; cases h2; exact h3.symm
  · have hg' : o.getCollateral = false := by simpa using hg
    simp only [hg', Bool.false_eq_true, ↓reduceIte, Outcome.ok.injEq, true_and, false_and, or_false]
    exact eq_comm

/-- the stage facts of `verifyEvidenceV4` -/
structure Evidence (C : Crypto) (w : World) (q : QuoteV4) (o : Opts) (T : TimeSet) (ch : Chain)
    (ext : PckExt.PckExtensions) (col : Option Collateral) : Prop where
  teeType : (q.header.getD default).teeType = abi_TeeTDX
  chain : ∀ c ∈ chainChecks w ch o T col, c.1 = true
  collateral : o.getCollateral = true →
    ∃ c, col = some c ∧ (∀ x ∈ collateralChecks w o T col, x.1 = true) ∧
      (∀ x ∈ tcbInfoChecks C w o T c, x.1 = true) ∧ (∀ x ∈ qeIdentityChecks C w o T c, x.1 = true)
  links : verifyQuoteLinks C q ch.leaf = .ok ()
  tcb : ∀ c, col = some c →
    tdBodyCheck Fixes.all c.tcb (q.tdQuoteBody.getD default) ext = .ok () ∧
    qeReportCheck c.qe (((qeCertData q).getD default).qeReport.getD default) = .ok ()

theorem collateralStage_ok_iff (C : Crypto) (w : World) (o : Opts) (T : TimeSet) (col : Option Collateral) :
    collateralStage C w o T col = .ok () ↔
      (o.getCollateral = true →
        ∃ c, col = some c ∧ (∀ x ∈ collateralChecks w o T col, x.1 = true) ∧
          (∀ x ∈ tcbInfoChecks C w o T c, x.1 = true) ∧ (∀ x ∈ qeIdentityChecks C w o T c, x.1 = true)) := by
  unfold collateralStage
  by_cases hg : o.getCollateral = true
  · simp only [hg, ↓reduceIte, true_imp_iff]
    cases col with
    | none => simp
    | some c =>
      simp only [runChecks_ok_iff, List.mem_append, Option.some.injEq, exists_eq_left']
      constructor
      · intro h
        exact ⟨fun x hx => h x (Or.inl (Or.inl hx)), fun x hx => h x (Or.inl (Or.inr hx)), fun x hx => h x (Or.inr hx)⟩
      · rintro ⟨a, b, c'⟩ x (( hx | hx) | hx)
        · exact a x hx
        · exact b x hx
        · exact c' x hx
  · have hg' : o.getCollateral = false := by simpa using hg
    simp [hg']

theorem tcbStage_ok_iff (q : QuoteV4) (ext : PckExt.PckExtensions) (col : Option Collateral) :
    tcbStage Fixes.all q ext col = .ok () ↔
      ∀ c, col = some c →
        tdBodyCheck Fixes.all c.tcb (q.tdQuoteBody.getD default) ext = .ok () ∧
        qeReportCheck c.qe (((qeCertData q).getD default).qeReport.getD default) = .ok () := by
  unfold tcbStage
  cases col with
  | none => simp
  | some c =>
    simp only [Option.some.injEq, forall_eq']
    constructor
    · intro h
      obtain ⟨u, h1, h2⟩ := bind_ok h
      cases u
      exact ⟨h1, h2⟩
    · rintro ⟨h1, h2⟩
      rw [bind_eq h1]; exact h2

theorem bind_unit_ok_iff {x : Outcome Unit} {f : Unit → Outcome Unit} :
    (x >>= f) = .ok () ↔ x = .ok () ∧ f () = .ok () := by
  constructor
  · intro h
    obtain ⟨u, h1, h2⟩ := bind_ok h
    cases u; exact ⟨h1, h2⟩
  · rintro ⟨h1, h2⟩
    rw [bind_eq h1]; exact h2

theorem verifyEvidence_ok_iff (C : Crypto) (w : World) (q : QuoteV4) (o : Opts) (T : TimeSet) (ch : Chain)
    (ext : PckExt.PckExtensions) (col : Option Collateral) :
    verifyEvidence Fixes.all C w q o T ch ext col = .ok () ↔ Evidence C w q o T ch ext col := by
  unfold verifyEvidence
  rw [bind_unit_ok_iff, bind_unit_ok_iff, bind_unit_ok_iff, runChecks_ok_iff, collateralStage_ok_iff, tcbStage_ok_iff]
  simp only [List.mem_cons, forall_eq_or_imp, beq_iff_eq]
  constructor
  · rintro ⟨⟨a, b⟩, c, d, e⟩
    exact ⟨a, b, c, d, e⟩
  · intro e
    exact ⟨⟨e.teeType, e.chain⟩, e.collateral, e.links, e.tcb⟩

/-- everything an accepting call establishes -/
structure Accepted (C : Crypto) (w : World) (q : Option QuoteV4) (o : Opts) : Prop where
  witness : ∃ (q' : QuoteV4) (ch : Chain) (ext : PckExt.PckExtensions) (col : Option Collateral),
    q = some q' ∧ checkQuoteV4 (some q') = .ok () ∧ extractChain w.chainPem = .ok ch ∧
    PckExt.pckCertificateExtensions (cert w ch.leaf).pck = .ok ext ∧ Fetched w o ch ext col ∧
    Evidence C w q' o (o.now.getD (defaultTimeSet w.clock)) ch ext col

theorem tdxQuote_ok_iff (C : Crypto) (w : World) (q : Option QuoteV4) (o : Opts) :
    (tdxQuote Fixes.all C w q o).verdict = .ok () ↔ Accepted C w q o := by
  unfold tdxQuote
  have hf2 : (!Fixes.all.f2 && (q.bind (·.header)).isNone) = false := rfl
  simp only [hf2, Bool.false_eq_true, ↓reduceIte]
  cases q with
  | none =>
    simp only
    constructor
    · intro h; cases h
    · rintro ⟨_, _, _, _, h, _⟩; cases h
  | some q' =>
    simp only
    cases hc : checkQuoteV4 (some q') with
    | err e =>
      simp only
      constructor
      · intro h; cases h
      · rintro ⟨_, _, _, _, h, h2, _⟩; cases h; rw [hc] at h2; cases h2
    | panic => exact absurd hc (checkQuoteV4_np _)
    | ok u =>
      cases u
      simp only
      cases hch : extractChain w.chainPem with
      | err e =>
        simp only
        constructor
        · intro h; cases h
        · rintro ⟨_, _, _, _, _, _, h3, _⟩; rw [hch] at h3; cases h3
      | panic =>
        simp only
        constructor
        · intro h; cases h
        · rintro ⟨_, _, _, _, _, _, h3, _⟩; rw [hch] at h3; cases h3
      | ok ch =>
        simp only
        cases hext : PckExt.pckCertificateExtensions (cert w ch.leaf).pck with
        | err e =>
          simp only
          constructor
          · intro h; cases h
          · rintro ⟨_, ch', _, _, _, _, h3, h4, _⟩; rw [hch] at h3; cases h3; rw [hext] at h4; cases h4
        | panic =>
          simp only
          constructor
          · intro h; cases h
          · rintro ⟨_, ch', _, _, _, _, h3, h4, _⟩; rw [hch] at h3; cases h3; rw [hext] at h4; cases h4
        | ok ext =>
          simp only
          cases hf : (fetchStage Fixes.all w o ch ext).2 with
          | err e =>
            simp only
            constructor
            · intro h; cases h
            · rintro ⟨_, ch', ext', col, _, _, h3, h4, h5, _⟩
              rw [hch] at h3; cases h3; rw [hext] at h4; cases h4
              rw [← fetchStage_ok_iff, hf] at h5; cases h5
          | panic =>
            simp only
            constructor
            · intro h; cases h
            · rintro ⟨_, ch', ext', col, _, _, h3, h4, h5, _⟩
              rw [hch] at h3; cases h3; rw [hext] at h4; cases h4
              rw [← fetchStage_ok_iff, hf] at h5; cases h5
          | ok col =>
            simp only
            rw [verifyEvidence_ok_iff]
            constructor
            · intro h
              exact ⟨q', ch, ext, col, rfl, hc, hch, hext, (fetchStage_ok_iff w o ch ext col).mp hf, h⟩
            · rintro ⟨q'', ch', ext', col', h1, _, h3, h4, h5, h6⟩
              cases h1; rw [hch] at h3; cases h3; rw [hext] at h4; cases h4
              rw [← fetchStage_ok_iff, hf] at h5; cases h5
              exact h6


/-! ### reading the check lists -/

/-- `validateCertificate(cert, parent, phrase)` succeeded -/
structure CertOk (c p : CertF) (phrase : String) : Prop where
  version : c.version = 3
  sigAlg : c.sigAlgOk = true
  pkAlg : c.pkAlgOk = true
  curve : c.curveOk = true
  name : c.subjectCN = phrase
  issuer : c.issuer = p.subject
  signed : sigFrom c p = true

theorem validateCertificate_all (c p : CertF) (phrase : String) :
    (∀ x ∈ validateCertificate c p phrase, x.1 = true) ↔ CertOk c p phrase := by
  unfold validateCertificate
  simp only [List.mem_cons, List.not_mem_nil, or_false, forall_eq_or_imp, forall_eq, beq_iff_eq]
  constructor
  · rintro ⟨a, b, c', d, e, f, g⟩; exact ⟨a, b, c', d, e, f, g⟩
  · intro h; exact ⟨h.version, h.sigAlg, h.pkAlg, h.curve, h.name, h.issuer, h.signed⟩

/-- `validateCRL(crl, cert)` succeeded -/
structure CrlOk (crl : CrlF) (c : CertF) : Prop where
  issuer : crl.issuer = c.subject
  signed : c.canSignCrl = true ∧ crl.signedBy = c.keyId ∧ c.keyId ≠ 0

theorem validateCRL_all (crl : CrlF) (c : CertF) : (∀ x ∈ validateCRL crl c, x.1 = true) ↔ CrlOk crl c := by
  unfold validateCRL
  simp only [List.mem_cons, List.not_mem_nil, or_false, forall_eq_or_imp, forall_eq, beq_iff_eq, Bool.and_eq_true,
    bne_iff_ne, ne_eq]
  constructor
  · rintro ⟨a, ⟨b, c'⟩, d⟩; exact ⟨a, b, c', d⟩
  · intro h; exact ⟨h.issuer, ⟨h.signed.1, h.signed.2.1⟩, h.signed.2.2⟩

/-- the revocation part of `verifyPCKCertificationChain` -/
structure ChainRevocationOk (w : World) (ch : Chain) (col : Option Collateral) : Prop where
  witness : ∃ c rootCrl cs crt pckCrl, col = some c ∧ c.rootCrl = some rootCrl ∧ c.pckCrl = some (cs, crt, pckCrl) ∧
    CrlOk rootCrl (cert w ch.root) ∧ CrlOk pckCrl (cert w ch.inter) ∧ pckCrl.issuer = (cert w ch.leaf).issuer ∧
    (cert w ch.inter).serial ∉ rootCrl.revoked ∧ (cert w ch.leaf).serial ∉ pckCrl.revoked

/-- `verifyPCKCertificationChain` succeeded -/
structure ChainOk (w : World) (ch : Chain) (o : Opts) (T : TimeSet) (col : Option Collateral) : Prop where
  root : CertOk (cert w ch.root) (cert w ch.root) verify_rootCertPhrase
  inter : CertOk (cert w ch.inter) (cert w ch.root) verify_intermediateCertPhrase
  leaf : CertOk (cert w ch.leaf) (cert w ch.inter) verify_pckCertPhrase
  anchored : pathValid w (effectiveRoots w) (some ch.inter) ch.leaf T.pckCertChain = true
  revocation : o.checkRevocations = true → o.getCollateral = true ∧ ChainRevocationOk w ch col
  rootInDate : T.pckCertChain ≤ (cert w ch.root).notAfter
  interInDate : T.pckCertChain ≤ (cert w ch.inter).notAfter
  leafInDate : T.pckCertChain ≤ (cert w ch.leaf).notAfter

theorem chainChecks_all (w : World) (ch : Chain) (o : Opts) (T : TimeSet) (col : Option Collateral)
    (h : ∀ x ∈ chainChecks w ch o T col, x.1 = true) : ChainOk w ch o T col := by
  unfold chainChecks at h
  simp only [List.mem_append, List.mem_cons, List.not_mem_nil, or_false] at h
  have hroot := (validateCertificate_all _ _ _).mp fun x hx => h x (Or.inl (Or.inl (Or.inl (Or.inl (Or.inl hx)))))
  have hinter := (validateCertificate_all _ _ _).mp fun x hx => h x (Or.inl (Or.inl (Or.inl (Or.inl (Or.inr hx)))))
  have hleaf := (validateCertificate_all _ _ _).mp fun x hx => h x (Or.inl (Or.inl (Or.inl (Or.inr hx))))
  have hanch := h _ (Or.inl (Or.inl (Or.inr rfl)))
  have h1 := h _ (Or.inr (Or.inl rfl))
  have h2 := h _ (Or.inr (Or.inr (Or.inl rfl)))
  have h3 := h _ (Or.inr (Or.inr (Or.inr rfl)))
  simp only [decide_eq_true_eq] at h1 h2 h3
  refine ⟨hroot, hinter, hleaf, hanch, ?_, h1, h2, h3⟩
  intro hcr
  have hrev : ∀ x ∈ (if o.getCollateral then
      match col.bind (·.rootCrl), col.bind (·.pckCrl) with
      | some rootCrl, some (_, _, pckCrl) =>
        validateCRL rootCrl (cert w ch.root) ++ validateCRL pckCrl (cert w ch.inter) ++
        [(pckCrl.issuer == (cert w ch.leaf).issuer, "pck crl issuer vs leaf issuer"),
         (!rootCrl.revoked.contains (cert w ch.inter).serial, "intermediate revoked"),
         (!pckCrl.revoked.contains (cert w ch.leaf).serial, "leaf revoked")]
      | _, _ => [(false, "crl missing")]
    else [(false, "revocation without collateral")]), x.1 = true := by
    intro x hx
    refine h x (Or.inl (Or.inr ?_))
    simp only [hcr, ↓reduceIte]
    exact hx
  by_cases hg : o.getCollateral = true
  · refine ⟨hg, ?_⟩
    simp only [hg, ↓reduceIte] at hrev
    cases col with
    | none => simpa using hrev (false, "crl missing") (by simp)
    | some c =>
      simp only [Option.bind_some] at hrev
      cases hr : c.rootCrl with
      | none => rw [hr] at hrev; simpa using hrev (false, "crl missing") (by simp)
      | some rootCrl =>
        cases hp : c.pckCrl with
        | none => rw [hr, hp] at hrev; simpa using hrev (false, "crl missing") (by simp)
        | some t =>
          obtain ⟨cs, crt, pckCrl⟩ := t
          rw [hr, hp] at hrev
          simp only [List.mem_append, List.mem_cons, List.not_mem_nil, or_false] at hrev
          have a := (validateCRL_all _ _).mp fun x hx => hrev x (Or.inl (Or.inl hx))
          have b := (validateCRL_all _ _).mp fun x hx => hrev x (Or.inl (Or.inr hx))
          have c1 := hrev _ (Or.inr (Or.inl rfl))
          have c2 := hrev _ (Or.inr (Or.inr (Or.inl rfl)))
          have c3 := hrev _ (Or.inr (Or.inr (Or.inr rfl)))
          simp only [beq_iff_eq, Bool.not_eq_true', List.contains_eq_mem, decide_eq_false_iff_not] at c1 c2 c3
          exact ⟨c, rootCrl, cs, crt, pckCrl, rfl, hr, hp, a, b, c1, c2, c3⟩
  · have hg' : o.getCollateral = false := by simpa using hg
    simp only [hg', Bool.false_eq_true, ↓reduceIte] at hrev
    simpa using hrev (false, "revocation without collateral") (by simp)

theorem inWindow_iff (c : CertF) (t : Int) : inWindow c t = true ↔ c.notBefore ≤ t ∧ t ≤ c.notAfter := by
  unfold inWindow; simp

/-- `parent` certifies `child`: issuer name, signature, and the parent may sign certificates -/
def Certifies (p c : CertF) : Prop := c.issuer = p.subject ∧ sigFrom c p = true

/-- what `x509.Certificate.Verify` established -/
inductive PathOk (w : World) (roots : List Nat) (inter : Option Nat) (c : Nat) (t : Int) : Prop where
  | isRoot (h : c ∈ roots)
  | direct (r : Nat) (hr : r ∈ roots) (hc : Certifies (cert w r) (cert w c)) (hw : inWindow (cert w r) t = true)
  | viaInter (i : Nat) (hi : inter = some i) (hne : i ≠ c) (hc : Certifies (cert w i) (cert w c)) (hwi : inWindow (cert w i) t = true)
      (top : i ∈ roots ∨ ∃ r ∈ roots, Certifies (cert w r) (cert w i) ∧ inWindow (cert w r) t = true)

theorem pathValid_iff (w : World) (roots : List Nat) (inter : Option Nat) (c : Nat) (t : Int) :
    pathValid w roots inter c t = true ↔ inWindow (cert w c) t = true ∧ PathOk w roots inter c t := by
  unfold pathValid
  simp only [Bool.and_eq_true, Bool.or_eq_true, List.contains_eq_mem, decide_eq_true_eq, List.any_eq_true, beq_iff_eq]
  constructor
  · rintro ⟨hw, (h | ⟨r, hr, ⟨h1, h2⟩, h3⟩) | h⟩
    · exact ⟨hw, .isRoot h⟩
    · exact ⟨hw, .direct r hr ⟨h1, h2⟩ h3⟩
    · cases inter with
      | none => simp at h
      | some i =>
        simp only [Bool.and_eq_true, bne_iff_ne, ne_eq, beq_iff_eq, Bool.or_eq_true, List.contains_eq_mem, decide_eq_true_eq,
          List.any_eq_true] at h
        obtain ⟨⟨⟨⟨hne, h1⟩, h2⟩, h3⟩, h4⟩ := h
        refine ⟨hw, .viaInter i rfl hne ⟨h1, h2⟩ h3 ?_⟩
        rcases h4 with h4 | ⟨r, hr, ⟨a, b⟩, c'⟩
        · exact Or.inl h4
        · exact Or.inr ⟨r, hr, ⟨a, b⟩, c'⟩
  · rintro ⟨hw, hp⟩
    refine ⟨hw, ?_⟩
    cases hp with
    | isRoot h => exact Or.inl (Or.inl h)
    | direct r hr hc hw' => exact Or.inl (Or.inr ⟨r, hr, ⟨hc.1, hc.2⟩, hw'⟩)
    | viaInter i hi hne hc hwi top =>
      subst hi
      refine Or.inr ?_
      simp only [Bool.and_eq_true, bne_iff_ne, ne_eq, beq_iff_eq, Bool.or_eq_true, List.contains_eq_mem, decide_eq_true_eq,
        List.any_eq_true]
      refine ⟨⟨⟨⟨hne, hc.1⟩, hc.2⟩, hwi⟩, ?_⟩
      rcases top with h | ⟨r, hr, hc', hw'⟩
      · exact Or.inl h
      · exact Or.inr ⟨r, hr, ⟨hc'.1, hc'.2⟩, hw'⟩


/-! ### what `obtainCollateral` returned -/

theorem getRootCrl_some (w : World) (dps : List String) (crl : CrlF) (h : (getRootCrl w dps).2 = some crl) :
    ∃ u ∈ dps, w.fetchRootCrl u = some (some crl) := by
  induction dps with
  | nil => simp [getRootCrl] at h
  | cons u rest ih =>
    unfold getRootCrl at h
    cases hf : w.fetchRootCrl u with
    | none =>
      simp only [hf] at h
      obtain ⟨u', hu', h'⟩ := ih h
      exact ⟨u', List.mem_cons_of_mem _ hu', h'⟩
    | some r =>
      cases r with
      | none =>
        simp only [hf] at h
        obtain ⟨u', hu', h'⟩ := ih h
        exact ⟨u', List.mem_cons_of_mem _ hu', h'⟩
      | some crl' =>
        simp only [hf, Option.some.injEq] at h
        subst h
        exact ⟨u, List.mem_cons_self .., hf⟩

/-- a response that was used: fetched, one issuer-chain header value with signer and root, JSON body whose exact
    member exists and decodes; the values that drive the verdict are the decode of that raw member -/
structure ResponseUsed {Doc : Type} (f : FetchF (BodyF Doc)) (signer root : Nat) (doc : Doc) (sig : String) (raw : Bytes) (zero : Bool) : Prop where
  witness : ∃ h b, f = .resp h b ∧ headerToIssuerChain h = .ok (signer, root) ∧ b.structOk = true ∧ b.raw = some raw ∧
    b.rawDoc = some doc ∧ b.signature = sig ∧ b.zero = zero

theorem bodyValues_ok {Doc : Type} (b : BodyF Doc) (d : Doc) (sig : String) (raw : Bytes) (z : Bool)
    (h : bodyValues Fixes.all b = .ok (d, sig, raw, z)) :
    b.structOk = true ∧ b.raw = some raw ∧ b.rawDoc = some d ∧ b.signature = sig ∧ b.zero = z := by
  unfold bodyValues at h
  cases hs : b.structOk with
  | false => simp [hs] at h
  | true =>
    simp only [hs, Bool.not_true, Bool.false_eq_true, ↓reduceIte] at h
    cases hr : b.raw with
    | none => simp [hr] at h
    | some raw' =>
      simp only [hr] at h
      have hf6 : Fixes.all.f6 = true := rfl
      simp only [hf6, ↓reduceIte] at h
      cases hd : b.rawDoc with
      | none => simp [hd] at h
      | some d' =>
        simp only [hd, Outcome.ok.injEq, Prod.mk.injEq] at h
        obtain ⟨rfl, rfl, rfl, rfl⟩ := h
        exact ⟨rfl, rfl, rfl, rfl, rfl⟩

/-- everything `obtainCollateral` established about the collateral it returned -/
structure Obtained (w : World) (fmspc ca : String) (cr : Bool) (c : Collateral) : Prop where
  tcb : ResponseUsed (w.fetchTcb (tcbInfoURL fmspc)) c.tcbSigner c.tcbRoot c.tcb c.tcbSig c.tcbRaw c.tcbZero
  qe : ResponseUsed (w.fetchQe qeIdentityURL) c.qeSigner c.qeRoot c.qe c.qeSig c.qeRaw c.qeZero
  noCrls : cr = false → c.pckCrl = none ∧ c.rootCrl = none
  crls : cr = true → ∃ h cs crt pckCrl rootCrl, w.fetchPckCrl (pckCrlURL ca) = .resp h (some pckCrl) ∧
    headerToIssuerChain h = .ok (cs, crt) ∧ c.pckCrl = some (cs, crt, pckCrl) ∧ c.rootCrl = some rootCrl ∧
    ∃ u ∈ (cert w c.qeRoot).crlDPs, w.fetchRootCrl u = some (some rootCrl)

/-- what `obtainBase` established -/
structure BaseObtained (w : World) (fmspc : String) (c : Collateral) : Prop where
  tcb : ResponseUsed (w.fetchTcb (tcbInfoURL fmspc)) c.tcbSigner c.tcbRoot c.tcb c.tcbSig c.tcbRaw c.tcbZero
  qe : ResponseUsed (w.fetchQe qeIdentityURL) c.qeSigner c.qeRoot c.qe c.qeSig c.qeRaw c.qeZero
  noCrls : c.pckCrl = none ∧ c.rootCrl = none
  urls : (obtainBase Fixes.all w fmspc).1 = [tcbInfoURL fmspc, qeIdentityURL]

theorem obtainBase_ok (w : World) (fmspc : String) (c : Collateral)
    (h : (obtainBase Fixes.all w fmspc).2 = .ok c) : BaseObtained w fmspc c := by
  unfold obtainBase at h
  cases h1 : w.fetchTcb (tcbInfoURL fmspc) with
  | fail => simp [h1] at h
  | resp hd1 b1 =>
    simp only [h1] at h
    cases h2 : headerToIssuerChain hd1 with
    | err e => simp [h2] at h
    | panic => simp [h2] at h
    | ok p1 =>
      obtain ⟨ts, tr⟩ := p1
      simp only [h2] at h
      cases h3 : bodyValues Fixes.all b1 with
      | err e => simp [h3] at h
      | panic => simp [h3] at h
      | ok v1 =>
        obtain ⟨tdoc, tsig, traw, tzero⟩ := v1
        simp only [h3] at h
        cases h4 : w.fetchQe qeIdentityURL with
        | fail => simp [h4] at h
        | resp hd2 b2 =>
          simp only [h4] at h
          cases h5 : headerToIssuerChain hd2 with
          | err e => simp [h5] at h
          | panic => simp [h5] at h
          | ok p2 =>
            obtain ⟨qs, qr⟩ := p2
            simp only [h5] at h
            cases h6 : bodyValues Fixes.all b2 with
            | err e => simp [h6] at h
            | panic => simp [h6] at h
            | ok v2 =>
              obtain ⟨qdoc, qsig, qraw, qzero⟩ := v2
              simp only [h6, Outcome.ok.injEq] at h
              subst h
              obtain ⟨a1, a2, a3, a4, a5⟩ := bodyValues_ok b1 _ _ _ _ h3
              obtain ⟨b1', b2', b3', b4', b5'⟩ := bodyValues_ok b2 _ _ _ _ h6
              exact ⟨⟨hd1, b1, h1, h2, a1, a2, a3, a4, a5⟩, ⟨hd2, b2, h4, h5, b1', b2', b3', b4', b5'⟩, ⟨rfl, rfl⟩,
                by unfold obtainBase; simp only [h1, h2, h3, h4, h5, h6]⟩

/-- what `obtainCrls` established -/
theorem obtainCrls_ok (w : World) (ca : String) (base c : Collateral) (h : (obtainCrls w ca base).2 = .ok c) :
    ∃ hd cs crt pckCrl rootCrl, w.fetchPckCrl (pckCrlURL ca) = .resp hd (some pckCrl) ∧
      headerToIssuerChain hd = .ok (cs, crt) ∧ c = { base with pckCrl := some (cs, crt, pckCrl), rootCrl := some rootCrl } ∧
      ∃ u ∈ (cert w base.qeRoot).crlDPs, w.fetchRootCrl u = some (some rootCrl) := by
  unfold obtainCrls at h
  cases h7 : w.fetchPckCrl (pckCrlURL ca) with
  | fail => simp [h7] at h
  | resp hd3 b3 =>
    simp only [h7] at h
    cases h8 : headerToIssuerChain hd3 with
    | err e => simp [h8] at h
    | panic => simp [h8] at h
    | ok p3 =>
      obtain ⟨cs, crt⟩ := p3
      simp only [h8] at h
      cases b3 with
      | none => simp at h
      | some pckCrl =>
        simp only at h
        by_cases hdp : (cert w base.qeRoot).crlDPs.isEmpty = true
        · simp [hdp] at h
        · simp only [hdp, Bool.false_eq_true, ↓reduceIte] at h
          cases h9 : (getRootCrl w (cert w base.qeRoot).crlDPs).2 with
          | none => simp [h9] at h
          | some rootCrl =>
            simp only [h9, Outcome.ok.injEq] at h
            obtain ⟨u, hu, hfu⟩ := getRootCrl_some w _ _ h9
            exact ⟨hd3, cs, crt, pckCrl, rootCrl, rfl, h8, h.symm, u, hu, hfu⟩

/-- the two halves of `obtainCollateral` -/
theorem obtainCollateral_ok_iff (w : World) (fmspc ca : String) (cr : Bool) (c : Collateral) :
    (obtainCollateral Fixes.all w fmspc ca cr).2 = .ok c ↔
      ∃ base, (obtainBase Fixes.all w fmspc).2 = .ok base ∧
        ((cr = false ∧ c = base) ∨ (cr = true ∧ (obtainCrls w ca base).2 = .ok c)) := by
  unfold obtainCollateral
  cases hb : (obtainBase Fixes.all w fmspc).2 with
  | err e => simp
  | panic => simp
  | ok base =>
    simp only [Outcome.ok.injEq, exists_eq_left']
    cases cr with
    | false => simp [eq_comm]
    | true => simp

theorem obtainCollateral_ok (w : World) (fmspc ca : String) (cr : Bool) (c : Collateral)
    (h : (obtainCollateral Fixes.all w fmspc ca cr).2 = .ok c) : Obtained w fmspc ca cr c := by
  obtain ⟨base, hb, hc⟩ := (obtainCollateral_ok_iff w fmspc ca cr c).mp h
  have ob := obtainBase_ok w fmspc base hb
  rcases hc with ⟨hcr, rfl⟩ | ⟨hcr, hc⟩
  · exact ⟨ob.tcb, ob.qe, fun _ => ob.noCrls, fun hh => by rw [hcr] at hh; cases hh⟩
  · obtain ⟨hd, cs, crt, pckCrl, rootCrl, f1, f2, rfl, u, hu, f3⟩ := obtainCrls_ok w ca base c hc
    exact ⟨ob.tcb, ob.qe, (fun hh => by rw [hcr] at hh; cases hh), (fun _ => ⟨hd, cs, crt, pckCrl, rootCrl, f1, f2, rfl, rfl, u, hu, f3⟩)⟩

/-! ### reading `verifyResponse`, `verifyTCBinfo`, `verifyQeIdentity`, `verifyCollateral` -/

structure ResponseOk (C : Crypto) (w : World) (o : Opts) (rootI signerI : Nat) (raw : Bytes) (sigHex : String)
    (rootCrl : Option CrlF) (t : Int) : Prop where
  root : CertOk (cert w rootI) (cert w rootI) verify_rootCertPhrase
  signer : CertOk (cert w signerI) (cert w rootI) verify_tcbSigningPhrase
  anchored : pathValid w (effectiveRoots w) none signerI t = true
  signature : ∃ sig, isHex128 sigHex = some sig ∧ C.verifyCert signerI raw sig = true
  revocation : o.checkRevocations = true → o.getCollateral = true ∧
    ∃ crl, rootCrl = some crl ∧ CrlOk crl (cert w rootI) ∧ (cert w signerI).serial ∉ crl.revoked

theorem responseChecks_all (C : Crypto) (w : World) (o : Opts) (rootI signerI : Nat) (raw : Bytes) (sigHex : String)
    (rootCrl : Option CrlF) (t : Int) (h : ∀ x ∈ responseChecks C w o rootI signerI raw sigHex rootCrl t, x.1 = true) :
    ResponseOk C w o rootI signerI raw sigHex rootCrl t := by
  unfold responseChecks at h
  simp only [List.mem_append, List.mem_cons, List.not_mem_nil, or_false] at h
  have hroot := (validateCertificate_all _ _ _).mp fun x hx => h x (Or.inl (Or.inl (Or.inl hx)))
  have hsigner := (validateCertificate_all _ _ _).mp fun x hx => h x (Or.inl (Or.inl (Or.inr hx)))
  have h1 := h _ (Or.inl (Or.inr (Or.inl rfl)))
  have h3 := h _ (Or.inl (Or.inr (Or.inr (Or.inr (Or.inl rfl)))))
  have h4 := h _ (Or.inl (Or.inr (Or.inr (Or.inr (Or.inr rfl)))))
  simp only at h1 h3 h4
  refine ⟨hroot, hsigner, h1, ?_, ?_⟩
  · cases hs : isHex128 sigHex with
    | none => simp [hs] at h3
    | some sig => exact ⟨sig, rfl, by simpa [hs] using h4⟩
  · intro hcr
    by_cases hg : o.getCollateral = true
    · refine ⟨hg, ?_⟩
      cases rootCrl with
      | none =>
        have := h (false, "root crl missing") (Or.inr (by simp [hcr, hg]))
        simp at this
      | some crl =>
        have a := (validateCRL_all crl (cert w rootI)).mp fun x hx => h x (Or.inr (by simp [hcr, hg]; exact Or.inl hx))
        have b := h (!crl.revoked.contains (cert w signerI).serial, "signer revoked") (Or.inr (by simp [hcr, hg]))
        simp only [Bool.not_eq_true', List.contains_eq_mem, decide_eq_false_iff_not] at b
        exact ⟨crl, rfl, a, b⟩
    · have hg' : o.getCollateral = false := by simpa using hg
      have := h (false, "revocation without collateral") (Or.inr (by simp [hcr, hg']))
      simp at this

structure TcbInfoOk (C : Crypto) (w : World) (o : Opts) (T : TimeSet) (c : Collateral) : Prop where
  id : c.tcb.id = verify_tcbInfoID
  version : c.tcb.version = verify_tcbInfoVersion
  levels : c.tcb.levels ≠ []
  response : ResponseOk C w o c.tcbRoot c.tcbSigner c.tcbRaw c.tcbSig c.rootCrl T.tcbInfo

theorem tcbInfoChecks_all (C : Crypto) (w : World) (o : Opts) (T : TimeSet) (c : Collateral)
    (h : ∀ x ∈ tcbInfoChecks C w o T c, x.1 = true) : TcbInfoOk C w o T c := by
  unfold tcbInfoChecks at h
  simp only [List.mem_append, List.mem_cons, List.not_mem_nil, or_false] at h
  have h1 := h _ (Or.inl (Or.inl rfl))
  have h2 := h _ (Or.inl (Or.inr (Or.inl rfl)))
  have h3 := h _ (Or.inl (Or.inr (Or.inr rfl)))
  simp only [beq_iff_eq, Bool.not_eq_true', List.isEmpty_eq_false_iff] at h1 h2 h3
  exact ⟨h1, h2, h3, responseChecks_all _ _ _ _ _ _ _ _ _ fun x hx => h x (Or.inr hx)⟩

structure QeIdentityOk (C : Crypto) (w : World) (o : Opts) (T : TimeSet) (c : Collateral) : Prop where
  id : c.qe.id = verify_qeIdentityID
  version : c.qe.version = verify_qeIdentityVersion
  levels : c.qe.levels ≠ []
  response : ResponseOk C w o c.qeRoot c.qeSigner c.qeRaw c.qeSig c.rootCrl T.qeIdentity

theorem qeIdentityChecks_all (C : Crypto) (w : World) (o : Opts) (T : TimeSet) (c : Collateral)
    (h : ∀ x ∈ qeIdentityChecks C w o T c, x.1 = true) : QeIdentityOk C w o T c := by
  unfold qeIdentityChecks at h
  simp only [List.mem_append, List.mem_cons, List.not_mem_nil, or_false] at h
  have h1 := h _ (Or.inl (Or.inl rfl))
  have h2 := h _ (Or.inl (Or.inr (Or.inl rfl)))
  have h3 := h _ (Or.inl (Or.inr (Or.inr rfl)))
  simp only [beq_iff_eq, Bool.not_eq_true', List.isEmpty_eq_false_iff] at h1 h2 h3
  exact ⟨h1, h2, h3, responseChecks_all _ _ _ _ _ _ _ _ _ fun x hx => h x (Or.inr hx)⟩

/-- `verifyCollateral` (presence) and `checkCollateralExpiration` succeeded -/
structure CollateralInDate (w : World) (o : Opts) (T : TimeSet) (c : Collateral) : Prop where
  tcb : T.tcbInfo ≤ c.tcb.nextUpdate
  qe : T.qeIdentity ≤ c.qe.nextUpdate
  tcbSigner : T.tcbInfo ≤ (cert w c.tcbSigner).notAfter
  tcbRoot : T.tcbInfo ≤ (cert w c.tcbRoot).notAfter
  qeRoot : T.qeIdentity ≤ (cert w c.qeRoot).notAfter
  qeSigner : T.qeIdentity ≤ (cert w c.qeSigner).notAfter
  crls : o.checkRevocations = true → ∃ rootCrl cs crt pckCrl, c.rootCrl = some rootCrl ∧ c.pckCrl = some (cs, crt, pckCrl) ∧
    T.rootCaCrl ≤ rootCrl.nextUpdate ∧ T.pckCrl ≤ pckCrl.nextUpdate ∧
    T.pckCrl ≤ (cert w cs).notAfter ∧ T.pckCrl ≤ (cert w crt).notAfter

theorem collateralChecks_all (w : World) (o : Opts) (T : TimeSet) (c : Collateral)
    (h : ∀ x ∈ collateralChecks w o T (some c), x.1 = true) : CollateralInDate w o T c := by
  unfold collateralChecks at h
  simp only [List.mem_append, List.mem_cons, List.not_mem_nil, or_false] at h
  have t1 := h _ (Or.inl (Or.inr (Or.inl rfl)))
  have t2 := h _ (Or.inl (Or.inr (Or.inr (Or.inl rfl))))
  have t3 := h _ (Or.inl (Or.inr (Or.inr (Or.inr (Or.inl rfl)))))
  have t4 := h _ (Or.inl (Or.inr (Or.inr (Or.inr (Or.inr (Or.inl rfl))))))
  have t5 := h _ (Or.inl (Or.inr (Or.inr (Or.inr (Or.inr (Or.inr (Or.inl rfl)))))))
  have t6 := h _ (Or.inl (Or.inr (Or.inr (Or.inr (Or.inr (Or.inr (Or.inr rfl)))))))
  simp only [decide_eq_true_eq] at t1 t2 t3 t4 t5 t6
  refine ⟨t1, t2, t3, t4, t5, t6, ?_⟩
  intro hcr
  have hp : ∀ x ∈ [(c.pckCrl.isSome, "pck crl missing"), (c.rootCrl.isSome, "root crl missing")], x.1 = true := by
    intro x hx
    refine h x (Or.inl (Or.inl (Or.inr ?_)))
    simp only [hcr, ↓reduceIte]; exact hx
  have p1 := hp _ (List.mem_cons_self ..)
  have p2 := hp _ (List.mem_cons_of_mem _ (List.mem_cons_self ..))
  obtain ⟨pc, hpc⟩ := Option.isSome_iff_exists.mp p1
  obtain ⟨rc, hrc⟩ := Option.isSome_iff_exists.mp p2
  obtain ⟨cs, crt, pckCrl⟩ := pc
  have hx : ∀ x ∈ [(decide (T.rootCaCrl ≤ rc.nextUpdate), "root crl expired"),
         (decide (T.pckCrl ≤ pckCrl.nextUpdate), "pck crl expired"),
         (decide (T.pckCrl ≤ (cert w cs).notAfter), "pck crl signer expired"),
         (decide (T.pckCrl ≤ (cert w crt).notAfter), "pck crl root expired")], x.1 = true := by
    intro x hx
    refine h x (Or.inr ?_)
    simp only [hcr, ↓reduceIte, hrc, hpc]; exact hx
  simp only [List.mem_cons, List.not_mem_nil, or_false, forall_eq_or_imp, forall_eq, decide_eq_true_eq] at hx
  exact ⟨rc, cs, crt, pckCrl, hrc, hpc, hx.1, hx.2.1, hx.2.2.1, hx.2.2.2⟩

end Tdx.Verify
