/- The refinement lemma of the verification pipeline: an accepting call decomposes into the facts of
   every stage, and conversely. All property theorems of C01–C07, C11, C12 are projections of this. -/
import TdxModel.Verify
import TdxProofs.Lemmas.Basic
import TdxProofs.Lemmas.AbiNoPanic

namespace Tdx.Verify
open Tdx Tdx.Gen Tdx.Abi

theorem runChecks_ok_iff (cs : List (Bool × String)) : runChecks cs = .ok () ↔ ∀ c ∈ cs, c.1 = true := by
  induction cs with
  | nil => simp [runChecks]
  | cons c rest ih =>
    obtain ⟨b, e⟩ := c
    unfold runChecks
    cases b <;> simp [ih]

theorem runChecks_ne_panic (cs : List (Bool × String)) : runChecks cs ≠ .panic := by
  induction cs with
  | nil => simp [runChecks]
  | cons c rest ih =>
    obtain ⟨b, e⟩ := c
    unfold runChecks
    cases b <;> simp [ih]

theorem runChecks_bind_ok {β} {cs : List (Bool × String)} {f : Unit → Outcome β} {r : β} :
    (runChecks cs >>= f) = .ok r ↔ (∀ c ∈ cs, c.1 = true) ∧ f () = .ok r := by
  constructor
  · intro h
    obtain ⟨u, h1, h2⟩ := bind_ok h
    cases u
    exact ⟨(runChecks_ok_iff cs).mp h1, h2⟩
  · intro ⟨h1, h2⟩
    rw [bind_eq ((runChecks_ok_iff cs).mpr h1)]
    exact h2

/-- the collateral a call works with: none without `GetCollateral`, otherwise what `obtainCollateral` returned -/
def Fetched (w : World) (o : Opts) (ch : Chain) (ext : PckExt.PckExtensions) (col : Option Collateral) : Prop :=
  (o.getCollateral = false ∧ col = none) ∨
  (o.getCollateral = true ∧ ∃ ca c, extractCa (cert w ch.leaf) = .ok ca ∧
      (obtainCollateral Fixes.all w ext.fmspc ca o.checkRevocations).2 = .ok c ∧ col = some c)

theorem fetchStage_ok_iff (w : World) (o : Opts) (ch : Chain) (ext : PckExt.PckExtensions) (col : Option Collateral) :
    (fetchStage Fixes.all w o ch ext).2 = .ok col ↔ Fetched w o ch ext col := by
  unfold fetchStage Fetched
  by_cases hg : o.getCollateral = true
  · simp only [hg, ↓reduceIte, Bool.true_eq_false, false_and, false_or, true_and]
    cases hca : extractCa (cert w ch.leaf) with
    | err e =>
      simp only
      constructor
      · intro h; cases h
      · rintro ⟨_, _, h, _⟩; cases h
    | panic =>
      simp only
      constructor
      · intro h; cases h
      · rintro ⟨_, _, h, _⟩; cases h
    | ok ca =>
      simp only
      cases hob : (obtainCollateral Fixes.all w ext.fmspc ca o.checkRevocations).2 with
      | err e =>
        simp only
        constructor
        · intro h; cases h
        · rintro ⟨ca', c', h1, h2, _⟩; cases h1; rw [hob] at h2; cases h2
      | panic =>
        simp only
        constructor
        · intro h; cases h
        · rintro ⟨ca', c', h1, h2, _⟩; cases h1; rw [hob] at h2; cases h2
      | ok c =>
        simp only [Outcome.ok.injEq]
        constructor
        · intro h; exact ⟨ca, c, rfl, hob, h.symm⟩
        · rintro ⟨ca', c', h1, h2, h3⟩
          cases h1; rw [hob] at h2; cases h2; exact h3.symm
  · have hg' : o.getCollateral = false := by simpa using hg
    simp only [hg', Bool.false_eq_true, ↓reduceIte, Outcome.ok.injEq, true_and, false_and, or_false]
    exact eq_comm

/-- the stage facts of `verifyEvidenceV4` -/
structure Evidence (C : Crypto) (w : World) (q : QuoteV4) (o : Opts) (T : TimeSet) (ch : Chain)
    (ext : PckExt.PckExtensions) (col : Option Collateral) : Prop where
  teeType : (q.header.getD default).teeType = abi_TeeTDX
  chain : ∀ c ∈ chainChecks w ch o T col, c.1 = true
  collateral : o.getCollateral = true →
    ∃ c, col = some c ∧ (∀ x ∈ collateralChecks w o T col, x.1 = true) ∧
      (∀ x ∈ tcbInfoChecks C w o T c, x.1 = true) ∧ (∀ x ∈ qeIdentityChecks C w o T c, x.1 = true)
  links : verifyQuoteLinks C q ch.leaf = .ok ()
  tcb : ∀ c, col = some c →
    tdBodyCheck Fixes.all c.tcb (q.tdQuoteBody.getD default) ext = .ok () ∧
    qeReportCheck c.qe (((qeCertData q).getD default).qeReport.getD default) = .ok ()

theorem collateralStage_ok_iff (C : Crypto) (w : World) (o : Opts) (T : TimeSet) (col : Option Collateral) :
    collateralStage C w o T col = .ok () ↔
      (o.getCollateral = true →
        ∃ c, col = some c ∧ (∀ x ∈ collateralChecks w o T col, x.1 = true) ∧
          (∀ x ∈ tcbInfoChecks C w o T c, x.1 = true) ∧ (∀ x ∈ qeIdentityChecks C w o T c, x.1 = true)) := by
  unfold collateralStage
  by_cases hg : o.getCollateral = true
  · simp only [hg, ↓reduceIte, true_imp_iff]
    cases col with
    | none => simp
    | some c =>
      simp only [runChecks_ok_iff, List.mem_append, Option.some.injEq, exists_eq_left']
      constructor
      · intro h
        exact ⟨fun x hx => h x (Or.inl (Or.inl hx)), fun x hx => h x (Or.inl (Or.inr hx)), fun x hx => h x (Or.inr hx)⟩
      · rintro ⟨a, b, c'⟩ x (( hx | hx) | hx)
        · exact a x hx
        · exact b x hx
        · exact c' x hx
  · have hg' : o.getCollateral = false := by simpa using hg
    simp [hg']

theorem tcbStage_ok_iff (q : QuoteV4) (ext : PckExt.PckExtensions) (col : Option Collateral) :
    tcbStage Fixes.all q ext col = .ok () ↔
      ∀ c, col = some c →
        tdBodyCheck Fixes.all c.tcb (q.tdQuoteBody.getD default) ext = .ok () ∧
        qeReportCheck c.qe (((qeCertData q).getD default).qeReport.getD default) = .ok () := by
  unfold tcbStage
  cases col with
  | none => simp
  | some c =>
    simp only [Option.some.injEq, forall_eq']
    constructor
    · intro h
      obtain ⟨u, h1, h2⟩ := bind_ok h
      cases u
      exact ⟨h1, h2⟩
    · rintro ⟨h1, h2⟩
      rw [bind_eq h1]; exact h2

theorem bind_unit_ok_iff {x : Outcome Unit} {f : Unit → Outcome Unit} :
    (x >>= f) = .ok () ↔ x = .ok () ∧ f () = .ok () := by
  constructor
  · intro h
    obtain ⟨u, h1, h2⟩ := bind_ok h
    cases u; exact ⟨h1, h2⟩
  · rintro ⟨h1, h2⟩
    rw [bind_eq h1]; exact h2

theorem verifyEvidence_ok_iff (C : Crypto) (w : World) (q : QuoteV4) (o : Opts) (T : TimeSet) (ch : Chain)
    (ext : PckExt.PckExtensions) (col : Option Collateral) :
    verifyEvidence Fixes.all C w q o T ch ext col = .ok () ↔ Evidence C w q o T ch ext col := by
  unfold verifyEvidence
  rw [bind_unit_ok_iff, bind_unit_ok_iff, bind_unit_ok_iff, runChecks_ok_iff, collateralStage_ok_iff, tcbStage_ok_iff]
  simp only [List.mem_cons, forall_eq_or_imp, beq_iff_eq]
  constructor
  · rintro ⟨⟨a, b⟩, c, d, e⟩
    exact ⟨a, b, c, d, e⟩
  · intro e
    exact ⟨⟨e.teeType, e.chain⟩, e.collateral, e.links, e.tcb⟩

/-- everything an accepting call establishes -/
structure Accepted (C : Crypto) (w : World) (q : Option QuoteV4) (o : Opts) : Prop where
  witness : ∃ (q' : QuoteV4) (ch : Chain) (ext : PckExt.PckExtensions) (col : Option Collateral),
    q = some q' ∧ checkQuoteV4 (some q') = .ok () ∧ extractChain w.chainPem = .ok ch ∧
    PckExt.pckCertificateExtensions (cert w ch.leaf).pck = .ok ext ∧ Fetched w o ch ext col ∧
    Evidence C w q' o (o.now.getD (defaultTimeSet w.clock)) ch ext col

theorem tdxQuote_ok_iff (C : Crypto) (w : World) (q : Option QuoteV4) (o : Opts) :
    (tdxQuote Fixes.all C w q o).verdict = .ok () ↔ Accepted C w q o := by
  unfold tdxQuote
  have hf2 : (!Fixes.all.f2 && (q.bind (·.header)).isNone) = false := rfl
  simp only [hf2, Bool.false_eq_true, ↓reduceIte]
  cases q with
  | none =>
    simp only
    constructor
    · intro h; cases h
    · rintro ⟨_, _, _, _, h, _⟩; cases h
  | some q' =>
    simp only
    cases hc : checkQuoteV4 (some q') with
    | err e =>
      simp only
      constructor
      · intro h; cases h
      · rintro ⟨_, _, _, _, h, h2, _⟩; cases h; rw [hc] at h2; cases h2
    | panic => exact absurd hc (checkQuoteV4_np _)
    | ok u =>
      cases u
      simp only
      cases hch : extractChain w.chainPem with
      | err e =>
        simp only
        constructor
        · intro h; cases h
        · rintro ⟨_, _, _, _, _, _, h3, _⟩; rw [hch] at h3; cases h3
      | panic =>
        simp only
        constructor
        · intro h; cases h
        · rintro ⟨_, _, _, _, _, _, h3, _⟩; rw [hch] at h3; cases h3
      | ok ch =>
        simp only
        cases hext : PckExt.pckCertificateExtensions (cert w ch.leaf).pck with
        | err e =>
          simp only
          constructor
          · intro h; cases h
          · rintro ⟨_, ch', _, _, _, _, h3, h4, _⟩; rw [hch] at h3; cases h3; rw [hext] at h4; cases h4
        | panic =>
          simp only
          constructor
          · intro h; cases h
          · rintro ⟨_, ch', _, _, _, _, h3, h4, _⟩; rw [hch] at h3; cases h3; rw [hext] at h4; cases h4
        | ok ext =>
          simp only
          cases hf : (fetchStage Fixes.all w o ch ext).2 with
          | err e =>
            simp only
            constructor
            · intro h; cases h
            · rintro ⟨_, ch', ext', col, _, _, h3, h4, h5, _⟩
              rw [hch] at h3; cases h3; rw [hext] at h4; cases h4
              rw [← fetchStage_ok_iff, hf] at h5; cases h5
          | panic =>
            simp only
            constructor
            · intro h; cases h
            · rintro ⟨_, ch', ext', col, _, _, h3, h4, h5, _⟩
              rw [hch] at h3; cases h3; rw [hext] at h4; cases h4
              rw [← fetchStage_ok_iff, hf] at h5; cases h5
          | ok col =>
            simp only
            rw [verifyEvidence_ok_iff]
            constructor
            · intro h
              exact ⟨q', ch, ext, col, rfl, hc, hch, hext, (fetchStage_ok_iff w o ch ext col).mp hf, h⟩
            · rintro ⟨q'', ch', ext', col', h1, _, h3, h4, h5, h6⟩
              cases h1; rw [hch] at h3; cases h3; rw [hext] at h4; cases h4
              rw [← fetchStage_ok_iff, hf] at h5; cases h5
              exact h6

end Tdx.Verify
