/-
  Helper lemmas for C13 (TdxModel.PckExt) and the vocabulary the property theorems are stated in:
  value assignments, their reference encoding as decoded trees, unknown elements.
-/
import TdxModel.PckExt

namespace Tdx.PckExt
open Tdx

/-! ## vocabulary of the statements -/

/-- a value assignment: what a PCK certificate's SGX extension encodes -/
structure Vals where
  ppid : Bytes
  comps : Bytes      -- the sixteen component SVNs; a byte each, i.e. exactly the range 0..255
  pcesvn : Nat
  cpusvn : Bytes
  pceid : Bytes
  fmspc : Bytes

structure Vals.WF (v : Vals) : Prop where
  ppid : v.ppid.length = ppidSize
  comps : v.comps.length = nComps
  pcesvn : v.pcesvn ≤ 65535
  cpusvn : v.cpusvn.length = cpuSvnSize
  pceid : v.pceid.length = pceidSize
  fmspc : v.fmspc.length = fmspcSize

/-- TCB element for component `i` (0-based): `SEQUENCE { OID …2.(i+1), INTEGER comps[i] }` -/
def compElem (v : Vals) (i : Nat) : Asn1 := .seq [.oid (compOid (i + 1)), .int ((v.comps[i]?.getD 0).toNat : Int)]
def pceElem (v : Vals) : Asn1 := .seq [.oid oidPCESvn, .int (v.pcesvn : Int)]
def cpuElem (v : Vals) : Asn1 := .seq [.oid oidCPUSvn, .octets v.cpusvn]

/-- the 18 TCB elements in canonical order -/
def tcbElems (v : Vals) : List Asn1 := (List.range nComps).map (compElem v) ++ [pceElem v, cpuElem v]

/-- O-4b: an octet-string item carries its value directly or as a DER OCTET STRING of it -/
def octetVal (wrapped : Bool) (b : Bytes) : Bytes := if wrapped then 4 :: UInt8.ofNat b.length :: b else b

structure Wrap where
  ppid : Bool
  pceid : Bool
  fmspc : Bool

def ppidElem (v : Vals) (w : Wrap) : Asn1 := .seq [.oid oidPPID, .octets (octetVal w.ppid v.ppid)]
def tcbElem (tcb : List Asn1) : Asn1 := .seq [.oid oidTCB, .seq tcb]
def pceidElem (v : Vals) (w : Wrap) : Asn1 := .seq [.oid oidPCEID, .octets (octetVal w.pceid v.pceid)]
def fmspcElem (v : Vals) (w : Wrap) : Asn1 := .seq [.oid oidFMSPC, .octets (octetVal w.fmspc v.fmspc)]

/-- the four SGX sub-extensions the code reads, in canonical order, around a given TCB element list -/
def sgxElems (v : Vals) (w : Wrap) (tcb : List Asn1) : List Asn1 :=
  [ppidElem v w, tcbElem tcb, pceidElem v w, fmspcElem v w]

/-- an SGX sub-extension the code does not read: a well-formed AttributeTypeAndValue with another OID -/
def Unknown (t : Asn1) : Prop :=
  ∃ o x rest, seqElems t = some (.oid o :: x :: rest) ∧ anyOk x = true ∧
    o ≠ oidPPID ∧ o ≠ oidTCB ∧ o ≠ oidPCEID ∧ o ≠ oidFMSPC

def expectedTcb (v : Vals) : Tcb := { pcesvn := v.pcesvn, cpusvn := v.cpusvn, comps := v.comps }

/-- what extraction must return for `v` -/
def expected (v : Vals) : PckExtensions :=
  { ppid := hexOf v.ppid, tcb := expectedTcb v, pceid := hexOf v.pceid, fmspc := hexOf v.fmspc }

/-- the value of an octet-string item is wrongly sized: neither it nor a wrapped value has the size -/
def WrongSize (b : Bytes) (size : Nat) : Prop :=
  b.length ≠ size ∧ ∀ inner : Bytes, inner.length = size → b ≠ 4 :: UInt8.ofNat size :: inner

/-! ## `foldO` -/

theorem bindO_ne_panic {α β} {x : Outcome α} {f : α → Outcome β} (hx : x ≠ .panic) (hf : ∀ a, f a ≠ .panic) :
    bindO x f ≠ .panic := by
  cases x with
  | ok a => exact hf a
  | err e => simp
  | panic => exact absurd rfl hx

theorem foldO_ne_panic {σ α} (step : σ → α → Outcome σ) (h : ∀ s a, step s a ≠ .panic) :
    ∀ l s, foldO step l s ≠ .panic := by
  intro l
  induction l with
  | nil => intro s; simp [foldO]
  | cons a l ih => intro s; exact bindO_ne_panic (h s a) ih

theorem foldO_err_of_mem {σ α} (step : σ → α → Outcome σ) (hnp : ∀ s a, step s a ≠ .panic)
    {l : List α} {t : α} (ht : t ∈ l) (hbad : ∀ s, ∃ e, step s t = .err e) :
    ∀ s, ∃ e, foldO step l s = .err e := by
  induction l with
  | nil => cases ht
  | cons a l ih =>
    intro s
    simp only [foldO]
    cases hs : step s a with
    | ok s' =>
      rcases List.mem_cons.mp ht with rfl | h
      · obtain ⟨e, he⟩ := hbad s; rw [hs] at he; cases he
      · simpa using ih h s'
    | err e => exact ⟨e, rfl⟩
    | panic => exact absurd hs (hnp s a)

theorem ne_panic_cases {α} {x : Outcome α} (h : x ≠ .panic) : (∃ a, x = .ok a) ∨ ∃ e, x = .err e := by
  cases x with
  | ok a => exact .inl ⟨a, rfl⟩
  | err e => exact .inr ⟨e, rfl⟩
  | panic => exact absurd rfl h

/-! ## nothing panics -/

theorem unmarshalATV_ne_panic (t : Asn1) : unmarshalATV t ≠ .panic := by
  unfold unmarshalATV; split
  · split <;> simp
  · simp

theorem unmarshalRawSeq_ne_panic (t : Asn1) : unmarshalRawSeq t ≠ .panic := by
  unfold unmarshalRawSeq; split <;> simp

theorem unmarshalExtension_ne_panic (t : Asn1) : unmarshalExtension t ≠ .panic := by
  unfold unmarshalExtension; split <;> simp

theorem longLen_ne_panic : ∀ n acc rest, longLen n acc rest ≠ .panic := by
  intro n
  induction n with
  | zero => intro acc rest; unfold longLen; split <;> simp
  | succ n ih =>
    intro acc rest
    cases rest with
    | nil => simp [longLen]
    | cons b rest =>
      unfold longLen
      split; · simp
      simp only
      split; · simp
      exact ih _ _

theorem parseLength_ne_panic (b : Bytes) : parseLength b ≠ .panic := by
  unfold parseLength
  split; · simp
  split; · simp
  split; · simp
  exact longLen_ne_panic _ _ _

theorem unmarshalOctetString_ne_panic (b : Bytes) : unmarshalOctetString b ≠ .panic := by
  unfold unmarshalOctetString
  split; · simp
  split; · simp
  refine bindO_ne_panic (parseLength_ne_panic _) ?_
  intro ⟨len, body⟩
  show (if len > body.length then _ else _) ≠ _
  split <;> simp

theorem asn1OctetString_ne_panic (b : Bytes) (n : Nat) : asn1OctetString b n ≠ .panic := by
  unfold asn1OctetString
  split; · simp
  refine bindO_ne_panic (unmarshalOctetString_ne_panic _) ?_
  intro ⟨octet, rest⟩
  show (if rest.length ≠ 0 then _ else _) ≠ _
  split; · simp
  split <;> simp

theorem asn1U8_ne_panic (x : Asn1) : asn1U8 x ≠ .panic := by
  unfold asn1U8; split
  · split <;> simp
  · simp

theorem asn1U16_ne_panic (x : Asn1) : asn1U16 x ≠ .panic := by
  unfold asn1U16; split
  · split <;> simp
  · simp

theorem tcbStep_ne_panic (acc : Tcb) (t : Asn1) : tcbStep acc t ≠ .panic := by
  unfold tcbStep
  refine bindO_ne_panic (unmarshalATV_ne_panic _) fun ⟨o, x⟩ => ?_
  refine bindO_ne_panic ?_ fun acc1 => bindO_ne_panic ?_ fun acc2 => ?_
  · split
    · exact bindO_ne_panic (asn1U8_ne_panic _) fun _ => by simp
    · simp
  · split
    · exact bindO_ne_panic (asn1U16_ne_panic _) fun _ => by simp
    · simp
  · split
    · split
      · split <;> simp
      · simp
    · simp

theorem extractTcbExtension_ne_panic (l : List Asn1) : extractTcbExtension l ≠ .panic :=
  foldO_ne_panic _ tcbStep_ne_panic _ _

theorem extractTcb_ne_panic (t : Asn1) : extractTcb t ≠ .panic := by
  unfold extractTcb
  refine bindO_ne_panic (unmarshalRawSeq_ne_panic _) fun s => ?_
  split
  · refine bindO_ne_panic (unmarshalRawSeq_ne_panic _) fun l => ?_
    split; · simp
    exact extractTcbExtension_ne_panic _
  · simp

theorem extractOctetItem_ne_panic (t : Asn1) (n : Nat) : extractOctetItem t n ≠ .panic := by
  unfold extractOctetItem
  refine bindO_ne_panic (unmarshalExtension_ne_panic _) fun ⟨_, v⟩ => ?_
  exact bindO_ne_panic (asn1OctetString_ne_panic _ _) fun _ => by simp

theorem sgxStep_ne_panic (acc : PckExtensions) (t : Asn1) : sgxStep acc t ≠ .panic := by
  unfold sgxStep
  refine bindO_ne_panic (unmarshalATV_ne_panic _) fun ⟨o, x⟩ => ?_
  refine bindO_ne_panic ?_ fun a1 => bindO_ne_panic ?_ fun a2 => bindO_ne_panic ?_ fun a3 => ?_
  · split
    · exact bindO_ne_panic (extractOctetItem_ne_panic _ _) fun _ => by simp
    · simp
  · split
    · exact bindO_ne_panic (extractTcb_ne_panic _) fun _ => by simp
    · simp
  · split
    · exact bindO_ne_panic (extractOctetItem_ne_panic _ _) fun _ => by simp
    · simp
  · split
    · exact bindO_ne_panic (extractOctetItem_ne_panic _ _) fun _ => by simp
    · simp

theorem extractSgxExtensions_ne_panic (l : List Asn1) : extractSgxExtensions l ≠ .panic := by
  unfold extractSgxExtensions
  split; · simp
  exact foldO_ne_panic _ sgxStep_ne_panic _ _

theorem pckCertificateExtensions_ne_panic (c : Cert) : pckCertificateExtensions c ≠ .panic := by
  unfold pckCertificateExtensions
  split; · simp
  split
  · simp
  · simp
  · refine bindO_ne_panic (unmarshalRawSeq_ne_panic _) fun l => ?_
    split; · simp
    exact extractSgxExtensions_ne_panic _

/-! ## OID facts (all by evaluation of the extracted constants) -/

theorem oidPCESvn_eq : oidPCESvn = compOid (nComps + 1) := by decide
theorem oidCPUSvn_eq : oidCPUSvn = compOid (nComps + 2) := by decide
theorem nComps_eq : nComps = 16 := by decide

theorem compOid_inj {a b : Nat} : compOid a = compOid b ↔ a = b := by
  simp [compOid]

theorem compIndex_compOid : ∀ k, k < 20 → compIndex (compOid k) = if 1 ≤ k ∧ k ≤ nComps then some (k - 1) else none := by
  decide

theorem compIndex_comp {i : Nat} (h : i < nComps) : compIndex (compOid (i + 1)) = some i := by
  rw [nComps_eq] at h
  rw [compIndex_compOid _ (by omega)]
  simp [nComps_eq]; omega

theorem compIndex_pce : compIndex oidPCESvn = none := by decide
theorem compIndex_cpu : compIndex oidCPUSvn = none := by decide

theorem top_oids_distinct :
    oidPPID ≠ oidTCB ∧ oidPPID ≠ oidPCEID ∧ oidPPID ≠ oidFMSPC ∧ oidTCB ≠ oidPCEID ∧ oidTCB ≠ oidFMSPC ∧ oidPCEID ≠ oidFMSPC := by
  decide

theorem sizes_small : ppidSize < 128 ∧ pceidSize < 128 ∧ fmspcSize < 128 := by decide

/-! ## one step of the TCB loop on each kind of well-formed element -/

theorem anyOk_small (n : Nat) (h : n ≤ 65535) : anyOk (.int (n : Int)) = true := by
  simp [anyOk, isInt64]; omega

theorem tcbStep_comp (v : Vals) (acc : Tcb) {i : Nat} (h : i < nComps) :
    tcbStep acc (compElem v i) = .ok { acc with comps := acc.comps.set i (v.comps[i]?.getD 0) } := by
  unfold compElem
  generalize v.comps[i]?.getD 0 = b
  have hb : b.toNat < 256 := UInt8.toNat_lt _
  have h1 : compOid (i + 1) ≠ oidPCESvn := by
    rw [oidPCESvn_eq, Ne, compOid_inj]; omega
  have h2 : compOid (i + 1) ≠ oidCPUSvn := by
    rw [oidCPUSvn_eq, Ne, compOid_inj]; omega
  have hany := anyOk_small b.toNat (by omega)
  have hr : ¬ ((b.toNat : Int) < 0 ∨ (b.toNat : Int) > 255) := by omega
  simp only [tcbStep, unmarshalATV, seqElems, hany, if_true, bindO_ok, compIndex_comp h, asn1U8, h1, h2, if_false, hr,
    Int.toNat_natCast, UInt8.ofNat_toNat]

theorem tcbStep_pce (v : Vals) (hv : v.pcesvn ≤ 65535) (acc : Tcb) :
    tcbStep acc (pceElem v) = .ok { acc with pcesvn := v.pcesvn } := by
  have h2 : oidPCESvn ≠ oidCPUSvn := by decide
  have hany := anyOk_small v.pcesvn hv
  simp only [tcbStep, pceElem, unmarshalATV, seqElems, hany, if_true, bindO_ok, compIndex_pce, asn1U16, h2, if_false]
  have hr : ¬ ((v.pcesvn : Int) < 0 ∨ (v.pcesvn : Int) > 65535) := by omega
  simp only [hr, if_false, bindO_ok, Int.toNat_natCast]

theorem tcbStep_cpu (v : Vals) (hv : v.cpusvn.length = cpuSvnSize) (acc : Tcb) :
    tcbStep acc (cpuElem v) = .ok { acc with cpusvn := v.cpusvn } := by
  have h2 : oidCPUSvn ≠ oidPCESvn := by decide
  simp [tcbStep, cpuElem, unmarshalATV, seqElems, anyOk, compIndex_cpu, h2, hv]

theorem mem_tcbElems {v : Vals} {t : Asn1} :
    t ∈ tcbElems v ↔ (∃ i, i < nComps ∧ t = compElem v i) ∨ t = pceElem v ∨ t = cpuElem v := by
  simp only [tcbElems, List.mem_append, List.mem_map, List.mem_range, List.mem_cons, List.not_mem_nil, or_false]
  constructor
  · rintro (⟨i, hi, rfl⟩ | h)
    · exact .inl ⟨i, hi, rfl⟩
    · exact .inr h
  · rintro (⟨i, hi, rfl⟩ | h)
    · exact .inl ⟨i, hi, rfl⟩
    · exact .inr h

theorem compElem_inj {v : Vals} {i j : Nat} (h : compElem v i = compElem v j) : i = j := by
  simp only [compElem, Asn1.seq.injEq, List.cons.injEq, Asn1.oid.injEq, compOid_inj] at h
  omega

theorem compElem_ne_pce {v : Vals} {i : Nat} (h : i < nComps) : compElem v i ≠ pceElem v := by
  intro e
  simp only [compElem, pceElem, oidPCESvn_eq, Asn1.seq.injEq, List.cons.injEq, Asn1.oid.injEq, compOid_inj] at e
  omega

theorem compElem_ne_cpu {v : Vals} {i : Nat} : compElem v i ≠ cpuElem v := by
  intro e
  simp [compElem, cpuElem] at e

theorem pceElem_ne_cpu {v : Vals} : pceElem v ≠ cpuElem v := by
  intro e
  simp [pceElem, cpuElem] at e

/-! ## the TCB loop over any list of well-formed elements of `v`, in any order, with any repetition

  Every element of `tcbElems v` writes `v`'s own value into its own slot, so the final state is
  determined by *which* elements occur, not by their order. -/

structure TcbAfter (v : Vals) (l : List Asn1) (acc r : Tcb) : Prop where
  len : r.comps.length = nComps
  comp_in : ∀ i, i < nComps → compElem v i ∈ l → r.comps[i]? = v.comps[i]?
  comp_out : ∀ i, i < nComps → compElem v i ∉ l → r.comps[i]? = acc.comps[i]?
  pce_in : pceElem v ∈ l → r.pcesvn = v.pcesvn
  pce_out : pceElem v ∉ l → r.pcesvn = acc.pcesvn
  cpu_in : cpuElem v ∈ l → r.cpusvn = v.cpusvn
  cpu_out : cpuElem v ∉ l → r.cpusvn = acc.cpusvn

theorem foldTcb_spec (v : Vals) (hv : v.WF) :
    ∀ (l : List Asn1), (∀ t ∈ l, t ∈ tcbElems v) → ∀ acc : Tcb, acc.comps.length = nComps →
      ∃ r, foldO tcbStep l acc = .ok r ∧ TcbAfter v l acc r := by
  intro l
  induction l with
  | nil =>
    intro _ acc hacc
    exact ⟨acc, rfl, ⟨hacc, by simp, by simp, by simp, by simp, by simp, by simp⟩⟩
  | cons t l ih =>
    intro hl acc hacc
    have ht := hl t (List.mem_cons_self ..)
    have hl' : ∀ t ∈ l, t ∈ tcbElems v := fun t h => hl t (List.mem_cons_of_mem _ h)
    rcases mem_tcbElems.mp ht with ⟨j, hj, rfl⟩ | rfl | rfl
    · -- component j
      obtain ⟨r, hr, A⟩ := ih hl' { acc with comps := acc.comps.set j (v.comps[j]?.getD 0) } (by simpa using hacc)
      refine ⟨r, by simp [foldO, tcbStep_comp v acc hj, hr], ⟨A.len, ?_, ?_, ?_, ?_, ?_, ?_⟩⟩
      · intro i hi hmem
        by_cases hin : compElem v i ∈ l
        · exact A.comp_in i hi hin
        · have hij : i = j := by
            rcases List.mem_cons.mp hmem with h | h
            · exact compElem_inj h
            · exact absurd h hin
          subst hij
          rw [A.comp_out i hi hin]
          have hlt : i < v.comps.length := by rw [hv.comps]; exact hi
          simp [hacc, hi, List.getElem?_eq_getElem hlt]
      · intro i hi hnot
        have hin : compElem v i ∉ l := fun h => hnot (List.mem_cons_of_mem _ h)
        have hij : j ≠ i := fun e => hnot (by rw [e]; exact List.mem_cons_self ..)
        rw [A.comp_out i hi hin]
        simp [hij]
      · intro hmem
        rcases List.mem_cons.mp hmem with h | h
        · exact absurd h.symm (compElem_ne_pce hj)
        · exact A.pce_in h
      · intro hnot
        exact A.pce_out fun h => hnot (List.mem_cons_of_mem _ h)
      · intro hmem
        rcases List.mem_cons.mp hmem with h | h
        · exact absurd h.symm compElem_ne_cpu
        · exact A.cpu_in h
      · intro hnot
        exact A.cpu_out fun h => hnot (List.mem_cons_of_mem _ h)
    · -- PCESVN
      obtain ⟨r, hr, A⟩ := ih hl' { acc with pcesvn := v.pcesvn } hacc
      refine ⟨r, by simp [foldO, tcbStep_pce v hv.pcesvn acc, hr], ⟨A.len, ?_, ?_, ?_, ?_, ?_, ?_⟩⟩
      · intro i hi hmem
        rcases List.mem_cons.mp hmem with h | h
        · exact absurd h (compElem_ne_pce hi)
        · exact A.comp_in i hi h
      · intro i hi hnot
        exact A.comp_out i hi fun h => hnot (List.mem_cons_of_mem _ h)
      · intro _
        by_cases hin : pceElem v ∈ l
        · exact A.pce_in hin
        · exact A.pce_out hin
      · intro hnot
        exact absurd (List.mem_cons_self ..) hnot
      · intro hmem
        rcases List.mem_cons.mp hmem with h | h
        · exact absurd h.symm pceElem_ne_cpu
        · exact A.cpu_in h
      · intro hnot
        exact A.cpu_out fun h => hnot (List.mem_cons_of_mem _ h)
    · -- CPUSVN
      obtain ⟨r, hr, A⟩ := ih hl' { acc with cpusvn := v.cpusvn } hacc
      refine ⟨r, by simp [foldO, tcbStep_cpu v hv.cpusvn acc, hr], ⟨A.len, ?_, ?_, ?_, ?_, ?_, ?_⟩⟩
      · intro i hi hmem
        rcases List.mem_cons.mp hmem with h | h
        · exact absurd h compElem_ne_cpu
        · exact A.comp_in i hi h
      · intro i hi hnot
        exact A.comp_out i hi fun h => hnot (List.mem_cons_of_mem _ h)
      · intro hmem
        rcases List.mem_cons.mp hmem with h | h
        · exact absurd h pceElem_ne_cpu
        · exact A.pce_in h
      · intro hnot
        exact A.pce_out fun h => hnot (List.mem_cons_of_mem _ h)
      · intro _
        by_cases hin : cpuElem v ∈ l
        · exact A.cpu_in hin
        · exact A.cpu_out hin
      · intro hnot
        exact absurd (List.mem_cons_self ..) hnot

theorem tcbElems_length (v : Vals) : (tcbElems v).length = Gen.pcs_tcbExtensionSize := by
  simp [tcbElems, nComps_eq]

/-- the TCB loop on any permutation of the 18 elements of `v` yields exactly `v`'s TCB -/
theorem extractTcbExtension_perm (v : Vals) (hv : v.WF) (tcb : List Asn1) (hσ : tcb.Perm (tcbElems v)) :
    extractTcbExtension tcb = .ok (expectedTcb v) := by
  have hmem : ∀ t, t ∈ tcb ↔ t ∈ tcbElems v := fun t => hσ.mem_iff
  obtain ⟨r, hr, A⟩ := foldTcb_spec v hv tcb (fun t h => (hmem t).mp h) tcbInit (by simp [tcbInit, zeros])
  unfold extractTcbExtension
  rw [hr]
  have hc : r.comps = v.comps := by
    apply List.ext_getElem?
    intro i
    by_cases hi : i < nComps
    · exact A.comp_in i hi ((hmem _).mpr (mem_tcbElems.mpr (.inl ⟨i, hi, rfl⟩)))
    · have h1 : r.comps.length ≤ i := by rw [A.len]; omega
      have h2 : v.comps.length ≤ i := by rw [hv.comps]; omega
      rw [List.getElem?_eq_none h1, List.getElem?_eq_none h2]
  have hp : r.pcesvn = v.pcesvn := A.pce_in ((hmem _).mpr (mem_tcbElems.mpr (.inr (.inl rfl))))
  have hu : r.cpusvn = v.cpusvn := A.cpu_in ((hmem _).mpr (mem_tcbElems.mpr (.inr (.inr rfl))))
  cases r
  simp_all [expectedTcb]

/-! ## `asn1OctetString` (O-4b) -/

theorem longLen_ge : ∀ n acc rest len body, longLen n acc rest = .ok (len, body) → 128 ≤ len := by
  intro n
  induction n with
  | zero =>
    intro acc rest len body h
    unfold longLen at h
    split at h
    · cases h
    · injection h with h; injection h with h1 h2; omega
  | succ n ih =>
    intro acc rest len body h
    cases rest with
    | nil => simp [longLen] at h
    | cons b rest =>
      unfold longLen at h
      split at h; · cases h
      simp only at h
      split at h; · cases h
      exact ih _ _ _ _ h

theorem parseLength_ok {b : Bytes} {len : Nat} {body : Bytes} (h : parseLength b = .ok (len, body)) (hs : len < 128) :
    b = UInt8.ofNat len :: body := by
  unfold parseLength at h
  split at h; · cases h
  rename_i x rest
  split at h
  · injection h with h; injection h with h1 h2
    subst h1 h2
    simp
  · split at h; · cases h
    have := longLen_ge _ _ _ _ _ h
    omega

theorem unmarshalOctetString_cons (t : UInt8) (rest : Bytes) :
    unmarshalOctetString (t :: rest) =
      if t ≠ 4 then .err "asn1: tags don't match"
      else bindO (parseLength rest) fun p =>
        if p.1 > p.2.length then .err "asn1: data truncated" else .ok (p.2.take p.1, p.2.drop p.1) := rfl

theorem asn1OctetString_eq (v : Bytes) (size : Nat) :
    asn1OctetString v size =
      if v.length = size then .ok v
      else bindO (unmarshalOctetString v) fun p =>
        if p.2.length ≠ 0 then .err "leftover bytes in extension value"
        else if p.1.length ≠ size then .err "extension's value size"
        else .ok p.1 := rfl

/-- what `asn1OctetString` accepts, for the sizes the code uses (< 128): the value itself when it has
    the wanted size, else exactly the DER OCTET STRING `04 size inner` of an `inner` of that size -/
theorem asn1OctetString_ok {b r : Bytes} {size : Nat} (hs : size < 128) (h : asn1OctetString b size = .ok r) :
    (b.length = size ∧ r = b) ∨ (r.length = size ∧ b = 4 :: UInt8.ofNat size :: r) := by
  rw [asn1OctetString_eq] at h
  by_cases hsz : b.length = size
  · rw [if_pos hsz] at h
    injection h with h; exact .inl ⟨hsz, h.symm⟩
  · rw [if_neg hsz] at h
    right
    cases b with
    | nil => simp [unmarshalOctetString] at h
    | cons t rest =>
      rw [unmarshalOctetString_cons] at h
      by_cases ht : t = 4
      · subst ht
        simp only [ne_eq, not_true_eq_false, if_false] at h
        cases hp : parseLength rest with
        | err e => simp [hp] at h
        | panic => simp [hp] at h
        | ok p =>
          obtain ⟨len, body⟩ := p
          simp only [hp, bindO_ok] at h
          by_cases hle : len > body.length
          · simp [hle] at h
          · simp only [hle, if_false, bindO_ok, List.length_drop, List.length_take] at h
            by_cases hrest : body.length - len ≠ 0
            · simp [hrest] at h
            · simp only [hrest, if_false] at h
              by_cases hlen : min len body.length ≠ size
              · simp [hlen] at h
              · simp only [hlen, if_false] at h
                injection h with h
                subst h
                have hbl : len = body.length := by omega
                have : len = size := by omega
                subst this
                have hb := parseLength_ok hp hs
                refine ⟨by simp [hbl], ?_⟩
                rw [hb, hbl, List.take_length]
      · simp [ht] at h

theorem asn1OctetString_wrongSize {b : Bytes} {size : Nat} (hs : size < 128) (hw : WrongSize b size) :
    ∃ e, asn1OctetString b size = .err e := by
  rcases ne_panic_cases (asn1OctetString_ne_panic b size) with ⟨r, hr⟩ | h
  · rcases asn1OctetString_ok hs hr with ⟨h1, _⟩ | ⟨h1, h2⟩
    · exact absurd h1 hw.1
    · exact absurd h2 (hw.2 r h1)
  · exact h

theorem asn1OctetString_octetVal (w : Bool) (b : Bytes) (size : Nat) (hb : b.length = size) (hs : size < 128) :
    asn1OctetString (octetVal w b) size = .ok b := by
  subst hb
  cases w with
  | false => simp [octetVal, asn1OctetString]
  | true =>
    have h1 : (UInt8.ofNat b.length).toNat = b.length := by
      rw [UInt8.toNat_ofNat']; omega
    have h3 : ¬ (b.length + 1 + 1 = b.length) := by omega
    simp [octetVal, asn1OctetString_eq, unmarshalOctetString_cons, parseLength, h1, hs, h3]

/-! ## one step of the SGX loop on each kind of element -/

theorem extractOctetItem_plain (o : List Nat) (w : Bool) (b : Bytes) (size : Nat) (hb : b.length = size) (hs : size < 128) :
    extractOctetItem (.seq [.oid o, .octets (octetVal w b)]) size = .ok (hexOf b) := by
  simp [extractOctetItem, unmarshalExtension, seqElems, asn1OctetString_octetVal w b size hb hs]

theorem sgxStep_ppid (v : Vals) (hv : v.WF) (w : Wrap) (acc : PckExtensions) :
    sgxStep acc (ppidElem v w) = .ok { acc with ppid := hexOf v.ppid } := by
  obtain ⟨h1, h2, h3, _, _, _⟩ := top_oids_distinct
  have hx := extractOctetItem_plain oidPPID w.ppid v.ppid ppidSize hv.ppid sizes_small.1
  unfold ppidElem at *
  simp [sgxStep, unmarshalATV, seqElems, anyOk, hx, h1, h2, h3]

theorem sgxStep_pceid (v : Vals) (hv : v.WF) (w : Wrap) (acc : PckExtensions) :
    sgxStep acc (pceidElem v w) = .ok { acc with pceid := hexOf v.pceid } := by
  obtain ⟨_, h2, _, h4, _, h6⟩ := top_oids_distinct
  have hx := extractOctetItem_plain oidPCEID w.pceid v.pceid pceidSize hv.pceid sizes_small.2.1
  unfold pceidElem at *
  simp [sgxStep, unmarshalATV, seqElems, anyOk, hx, h2.symm, h4.symm, h6]

theorem sgxStep_fmspc (v : Vals) (hv : v.WF) (w : Wrap) (acc : PckExtensions) :
    sgxStep acc (fmspcElem v w) = .ok { acc with fmspc := hexOf v.fmspc } := by
  obtain ⟨_, _, h3, _, h5, h6⟩ := top_oids_distinct
  have hx := extractOctetItem_plain oidFMSPC w.fmspc v.fmspc fmspcSize hv.fmspc sizes_small.2.2
  unfold fmspcElem at *
  simp [sgxStep, unmarshalATV, seqElems, anyOk, hx, h3.symm, h5.symm, h6.symm]

theorem extractTcb_tcbElem (v : Vals) (hv : v.WF) (tcb : List Asn1) (hσ : tcb.Perm (tcbElems v)) :
    extractTcb (tcbElem tcb) = .ok (expectedTcb v) := by
  have hlen : tcb.length = Gen.pcs_tcbExtensionSize := by rw [hσ.length_eq, tcbElems_length]
  simp [extractTcb, tcbElem, unmarshalRawSeq, hlen, extractTcbExtension_perm v hv tcb hσ]

theorem sgxStep_tcb (v : Vals) (hv : v.WF) (tcb : List Asn1) (hσ : tcb.Perm (tcbElems v)) (acc : PckExtensions) :
    sgxStep acc (tcbElem tcb) = .ok { acc with tcb := expectedTcb v } := by
  obtain ⟨h1, _, _, h4, h5, _⟩ := top_oids_distinct
  have hx := extractTcb_tcbElem v hv tcb hσ
  unfold tcbElem at *
  simp [sgxStep, unmarshalATV, seqElems, anyOk, hx, h1.symm, h4, h5]

theorem sgxStep_unknown (t : Asn1) (ht : Unknown t) (acc : PckExtensions) : sgxStep acc t = .ok acc := by
  obtain ⟨o, x, rest, hse, hany, h1, h2, h3, h4⟩ := ht
  simp [sgxStep, unmarshalATV, hse, hany, h1, h2, h3, h4]

theorem ppidElem_ne_others {v : Vals} {w : Wrap} {tcb : List Asn1} :
    ppidElem v w ≠ tcbElem tcb ∧ ppidElem v w ≠ pceidElem v w ∧ ppidElem v w ≠ fmspcElem v w ∧
    tcbElem tcb ≠ pceidElem v w ∧ tcbElem tcb ≠ fmspcElem v w ∧ pceidElem v w ≠ fmspcElem v w := by
  obtain ⟨h1, h2, h3, h4, h5, h6⟩ := top_oids_distinct
  simp [ppidElem, tcbElem, pceidElem, fmspcElem, h1, h2, h3, h4, h5, h6]

theorem unknown_ne_known {v : Vals} {w : Wrap} {tcb : List Asn1} {t : Asn1} (ht : Unknown t) :
    t ≠ ppidElem v w ∧ t ≠ tcbElem tcb ∧ t ≠ pceidElem v w ∧ t ≠ fmspcElem v w := by
  obtain ⟨o, x, rest, hse, _, h1, h2, h3, h4⟩ := ht
  refine ⟨?_, ?_, ?_, ?_⟩ <;> intro e <;> subst e <;>
    simp [seqElems, ppidElem, tcbElem, pceidElem, fmspcElem] at hse <;> simp_all

/-! ## the SGX loop over any list of `v`'s four elements and unknown elements -/

structure SgxAfter (v : Vals) (w : Wrap) (tcb : List Asn1) (l : List Asn1) (acc r : PckExtensions) : Prop where
  ppid_in : ppidElem v w ∈ l → r.ppid = hexOf v.ppid
  ppid_out : ppidElem v w ∉ l → r.ppid = acc.ppid
  tcb_in : tcbElem tcb ∈ l → r.tcb = expectedTcb v
  tcb_out : tcbElem tcb ∉ l → r.tcb = acc.tcb
  pceid_in : pceidElem v w ∈ l → r.pceid = hexOf v.pceid
  pceid_out : pceidElem v w ∉ l → r.pceid = acc.pceid
  fmspc_in : fmspcElem v w ∈ l → r.fmspc = hexOf v.fmspc
  fmspc_out : fmspcElem v w ∉ l → r.fmspc = acc.fmspc

theorem mem_cons_of_ne {α} {a b : α} {l : List α} (h : a ∈ b :: l) (hne : a ≠ b) : a ∈ l := by
  rcases List.mem_cons.mp h with h | h
  · exact absurd h hne
  · exact h

theorem foldSgx_spec (v : Vals) (hv : v.WF) (w : Wrap) (tcb : List Asn1) (hσ : tcb.Perm (tcbElems v)) :
    ∀ (l : List Asn1), (∀ t ∈ l, t ∈ sgxElems v w tcb ∨ Unknown t) → ∀ acc : PckExtensions,
      ∃ r, foldO sgxStep l acc = .ok r ∧ SgxAfter v w tcb l acc r := by
  intro l
  induction l with
  | nil =>
    intro _ acc
    exact ⟨acc, rfl, ⟨by simp, by simp, by simp, by simp, by simp, by simp, by simp, by simp⟩⟩
  | cons t l ih =>
    intro hl acc
    have ht := hl t (List.mem_cons_self ..)
    have hl' : ∀ t ∈ l, t ∈ sgxElems v w tcb ∨ Unknown t := fun t h => hl t (List.mem_cons_of_mem _ h)
    obtain ⟨n1, n2, n3, n4, n5, n6⟩ := @ppidElem_ne_others v w tcb
    have keep : ∀ {a : Asn1}, a ∉ t :: l → a ∉ l := fun h h' => h (List.mem_cons_of_mem _ h')
    rcases ht with ht | ht
    · simp only [sgxElems, List.mem_cons, List.not_mem_nil, or_false] at ht
      rcases ht with rfl | rfl | rfl | rfl
      · obtain ⟨r, hr, A⟩ := ih hl' { acc with ppid := hexOf v.ppid }
        refine ⟨r, by simp [foldO, sgxStep_ppid v hv w acc, hr], ⟨?_, ?_, ?_, ?_, ?_, ?_, ?_, ?_⟩⟩
        · intro _; by_cases hin : ppidElem v w ∈ l
          · exact A.ppid_in hin
          · exact A.ppid_out hin
        · intro h; exact absurd (List.mem_cons_self ..) h
        · intro h; exact A.tcb_in (mem_cons_of_ne h n1.symm)
        · intro h; exact A.tcb_out (keep h)
        · intro h; exact A.pceid_in (mem_cons_of_ne h n2.symm)
        · intro h; exact A.pceid_out (keep h)
        · intro h; exact A.fmspc_in (mem_cons_of_ne h n3.symm)
        · intro h; exact A.fmspc_out (keep h)
      · obtain ⟨r, hr, A⟩ := ih hl' { acc with tcb := expectedTcb v }
        refine ⟨r, by simp [foldO, sgxStep_tcb v hv tcb hσ acc, hr], ⟨?_, ?_, ?_, ?_, ?_, ?_, ?_, ?_⟩⟩
        · intro h; exact A.ppid_in (mem_cons_of_ne h n1)
        · intro h; exact A.ppid_out (keep h)
        · intro _; by_cases hin : tcbElem tcb ∈ l
          · exact A.tcb_in hin
          · exact A.tcb_out hin
        · intro h; exact absurd (List.mem_cons_self ..) h
        · intro h; exact A.pceid_in (mem_cons_of_ne h n4.symm)
        · intro h; exact A.pceid_out (keep h)
        · intro h; exact A.fmspc_in (mem_cons_of_ne h n5.symm)
        · intro h; exact A.fmspc_out (keep h)
      · obtain ⟨r, hr, A⟩ := ih hl' { acc with pceid := hexOf v.pceid }
        refine ⟨r, by simp [foldO, sgxStep_pceid v hv w acc, hr], ⟨?_, ?_, ?_, ?_, ?_, ?_, ?_, ?_⟩⟩
        · intro h; exact A.ppid_in (mem_cons_of_ne h n2)
        · intro h; exact A.ppid_out (keep h)
        · intro h; exact A.tcb_in (mem_cons_of_ne h n4)
        · intro h; exact A.tcb_out (keep h)
        · intro _; by_cases hin : pceidElem v w ∈ l
          · exact A.pceid_in hin
          · exact A.pceid_out hin
        · intro h; exact absurd (List.mem_cons_self ..) h
        · intro h; exact A.fmspc_in (mem_cons_of_ne h n6.symm)
        · intro h; exact A.fmspc_out (keep h)
      · obtain ⟨r, hr, A⟩ := ih hl' { acc with fmspc := hexOf v.fmspc }
        refine ⟨r, by simp [foldO, sgxStep_fmspc v hv w acc, hr], ⟨?_, ?_, ?_, ?_, ?_, ?_, ?_, ?_⟩⟩
        · intro h; exact A.ppid_in (mem_cons_of_ne h n3)
        · intro h; exact A.ppid_out (keep h)
        · intro h; exact A.tcb_in (mem_cons_of_ne h n5)
        · intro h; exact A.tcb_out (keep h)
        · intro h; exact A.pceid_in (mem_cons_of_ne h n6)
        · intro h; exact A.pceid_out (keep h)
        · intro _; by_cases hin : fmspcElem v w ∈ l
          · exact A.fmspc_in hin
          · exact A.fmspc_out hin
        · intro h; exact absurd (List.mem_cons_self ..) h
    · obtain ⟨u1, u2, u3, u4⟩ := @unknown_ne_known v w tcb t ht
      obtain ⟨r, hr, A⟩ := ih hl' acc
      refine ⟨r, by simp [foldO, sgxStep_unknown t ht acc, hr], ⟨?_, ?_, ?_, ?_, ?_, ?_, ?_, ?_⟩⟩
      · intro h; exact A.ppid_in (mem_cons_of_ne h u1.symm)
      · intro h; exact A.ppid_out (keep h)
      · intro h; exact A.tcb_in (mem_cons_of_ne h u2.symm)
      · intro h; exact A.tcb_out (keep h)
      · intro h; exact A.pceid_in (mem_cons_of_ne h u3.symm)
      · intro h; exact A.pceid_out (keep h)
      · intro h; exact A.fmspc_in (mem_cons_of_ne h u4.symm)
      · intro h; exact A.fmspc_out (keep h)

/-- the SGX loop on any permutation of `v`'s four elements and any unknown elements yields exactly `v` -/
theorem extractSgxExtensions_perm (v : Vals) (hv : v.WF) (w : Wrap) (tcb sgx extra : List Asn1)
    (hσ : tcb.Perm (tcbElems v)) (hπ : sgx.Perm (sgxElems v w tcb ++ extra)) (hx : ∀ t ∈ extra, Unknown t) :
    extractSgxExtensions sgx = .ok (expected v) := by
  have hmem : ∀ t, t ∈ sgx ↔ t ∈ sgxElems v w tcb ∨ t ∈ extra := fun t => by rw [hπ.mem_iff, List.mem_append]
  have hlen : ¬ sgx.length < Gen.pcs_sgxExtensionMinSize := by
    rw [hπ.length_eq]; simp [sgxElems]
  obtain ⟨r, hr, A⟩ := foldSgx_spec v hv w tcb hσ sgx
    (fun t h => ((hmem t).mp h).imp id (hx t)) {}
  unfold extractSgxExtensions
  rw [if_neg hlen, hr]
  have m1 : ppidElem v w ∈ sgx := (hmem _).mpr (.inl (by simp [sgxElems]))
  have m2 : tcbElem tcb ∈ sgx := (hmem _).mpr (.inl (by simp [sgxElems]))
  have m3 : pceidElem v w ∈ sgx := (hmem _).mpr (.inl (by simp [sgxElems]))
  have m4 : fmspcElem v w ∈ sgx := (hmem _).mpr (.inl (by simp [sgxElems]))
  have e1 := A.ppid_in m1
  have e2 := A.tcb_in m2
  have e3 := A.pceid_in m3
  have e4 := A.fmspc_in m4
  cases r
  simp_all [expected]

/-! ## error propagation: one bad element anywhere makes the whole extraction fail -/

/-- the SGX extension the code finds decodes to the SEQUENCE `sgx` (with or without bytes after it) -/
def SgxIs (c : Cert) (sgx : List Asn1) : Prop :=
  ∃ trailing, findMatchingExtension c.exts oidSgx = some (.tree (.seq sgx) trailing)

theorem cert_ok_or_err (c : Cert) : (∃ r, pckCertificateExtensions c = .ok r) ∨ ∃ e, pckCertificateExtensions c = .err e :=
  ne_panic_cases (pckCertificateExtensions_ne_panic c)

theorem cert_err_of_sgx_err {c : Cert} {sgx : List Asn1} (hc : SgxIs c sgx)
    (h : ∃ e, extractSgxExtensions sgx = .err e) : ∃ e, pckCertificateExtensions c = .err e := by
  obtain ⟨trailing, hf⟩ := hc
  obtain ⟨e, he⟩ := h
  unfold pckCertificateExtensions
  split; · exact ⟨_, rfl⟩
  simp only [hf, unmarshalRawSeq, bindO_ok]
  split
  · exact ⟨_, rfl⟩
  · exact ⟨e, he⟩

theorem sgx_err_of_bad_elem {sgx : List Asn1} {t : Asn1} (ht : t ∈ sgx) (hbad : ∀ s, ∃ e, sgxStep s t = .err e) :
    ∃ e, extractSgxExtensions sgx = .err e := by
  unfold extractSgxExtensions
  split
  · exact ⟨_, rfl⟩
  · exact foldO_err_of_mem sgxStep sgxStep_ne_panic ht hbad _

theorem cert_err_of_bad_elem {c : Cert} {sgx : List Asn1} {t : Asn1} (hc : SgxIs c sgx) (ht : t ∈ sgx)
    (hbad : ∀ s, ∃ e, sgxStep s t = .err e) : ∃ e, pckCertificateExtensions c = .err e :=
  cert_err_of_sgx_err hc (sgx_err_of_bad_elem ht hbad)

/-- a TCB item: an element whose first two fields are the TCB OID and the SEQUENCE `tcb` -/
def IsTcbItem (t : Asn1) (tcb : List Asn1) : Prop :=
  ∃ rest, seqElems t = some (.oid oidTCB :: .seq tcb :: rest)

theorem sgxStep_err_of_extractTcb_err {t : Asn1} {x : Asn1} {rest : List Asn1}
    (hse : seqElems t = some (.oid oidTCB :: x :: rest)) (h : ∃ e, extractTcb t = .err e) :
    ∀ s, ∃ e, sgxStep s t = .err e := by
  intro s
  obtain ⟨e, he⟩ := h
  obtain ⟨h1, _, _, _, _, _⟩ := top_oids_distinct
  unfold sgxStep unmarshalATV
  rw [hse]
  by_cases hany : anyOk x = true
  · simp [hany, h1.symm, he]
  · simp [hany]

theorem extractTcb_err_of_bad_elem {t : Asn1} {tcb : List Asn1} (ht : IsTcbItem t tcb) {e : Asn1} (he : e ∈ tcb)
    (hbad : ∀ s, ∃ m, tcbStep s e = .err m) : ∃ m, extractTcb t = .err m := by
  obtain ⟨rest, hse⟩ := ht
  have hfold : ∃ m, extractTcbExtension tcb = .err m := foldO_err_of_mem tcbStep tcbStep_ne_panic he hbad _
  obtain ⟨m, hm⟩ := hfold
  cases t with
  | seq l =>
    simp only [seqElems, Option.some.injEq] at hse
    subst hse
    cases rest with
    | nil =>
      by_cases hl : tcb.length = Gen.pcs_tcbExtensionSize
      · exact ⟨m, by simp [extractTcb, unmarshalRawSeq, hl, hm]⟩
      · simp [extractTcb, unmarshalRawSeq, hl]
    | cons a rest => simp [extractTcb, unmarshalRawSeq]
  | seqJunk l => simp [extractTcb, unmarshalRawSeq]
  | _ => simp [seqElems] at hse

/-- a bad element anywhere in the TCB sequence of a TCB item anywhere in the SGX sequence -/
theorem cert_err_of_bad_tcb_elem {c : Cert} {sgx tcb : List Asn1} {t e : Asn1} (hc : SgxIs c sgx) (ht : t ∈ sgx)
    (htcb : IsTcbItem t tcb) (he : e ∈ tcb) (hbad : ∀ s, ∃ m, tcbStep s e = .err m) :
    ∃ m, pckCertificateExtensions c = .err m := by
  obtain ⟨rest, hse⟩ := htcb
  exact cert_err_of_bad_elem hc ht (sgxStep_err_of_extractTcb_err hse (extractTcb_err_of_bad_elem ⟨rest, hse⟩ he hbad))

theorem unmarshalATV_fields {e : Asn1} {o : List Nat} {x : Asn1} {rest : List Asn1}
    (hse : seqElems e = some (.oid o :: x :: rest)) :
    unmarshalATV e = if anyOk x then .ok (o, x) else .err "asn1: ANY value" := by
  unfold unmarshalATV
  rw [hse]

theorem err_of_bindO_err {α β} {x : Outcome α} {f : α → Outcome β} (h : ∃ e, x = .err e) : ∃ e, bindO x f = .err e := by
  obtain ⟨e, rfl⟩ := h; exact ⟨e, rfl⟩

/-- `sgxStep` on an octet-string item whose extraction fails -/
theorem sgxStep_err_of_item_err {t : Asn1} {o : List Nat} {x : Asn1} {rest : List Asn1}
    (hse : seqElems t = some (.oid o :: x :: rest))
    (h : (o = oidPPID ∧ ∃ e, extractOctetItem t ppidSize = .err e) ∨ (o = oidPCEID ∧ ∃ e, extractOctetItem t pceidSize = .err e) ∨
         (o = oidFMSPC ∧ ∃ e, extractOctetItem t fmspcSize = .err e)) :
    ∀ s, ∃ e, sgxStep s t = .err e := by
  intro s
  obtain ⟨h1, h2, h3, h4, h5, h6⟩ := top_oids_distinct
  unfold sgxStep unmarshalATV
  rw [hse]
  by_cases hany : anyOk x = true
  · rcases h with ⟨rfl, e, he⟩ | ⟨rfl, e, he⟩ | ⟨rfl, e, he⟩
    · simp [hany, he]
    · simp [hany, he, h2.symm, h4.symm]
    · simp [hany, he, h3.symm, h5.symm, h6.symm]
  · simp [hany]

end Tdx.PckExt
