/- parse → serialise direction for every level of the quote (C09 `serialize_parse`). -/
import TdxModel.Abi
import TdxProofs.Lemmas.Basic
import TdxProofs.Generated.ConstsSimp

namespace Tdx.Abi
open Tdx Tdx.Gen

theorem lenIs_ok {b : Bytes} {n : Nat} {w} {β} {f : Unit → Outcome β} {r} (h : (lenIs b n w >>= f) = .ok r) :
    b.length = n ∧ f () = .ok r := by
  obtain ⟨h1, h2⟩ := guard_ok h
  exact ⟨by simpa using h1, h2⟩

theorem header_ser {b : Bytes} {h : Header} (hp : headerToProto b = .ok h) (hl : b.length = 48) :
    headerToAbiBytes (some h) = .ok b := by
  unfold headerToProto at hp
  simp only [gen_const] at hp
  obtain ⟨v, hv, hp⟩ := bind_ok hp
  obtain ⟨k, hk, hp⟩ := bind_ok hp
  obtain ⟨t, ht, hp⟩ := bind_ok hp
  obtain ⟨pce, hpce, hp⟩ := bind_ok hp
  obtain ⟨qe, hqe, hp⟩ := bind_ok hp
  obtain ⟨ven, hven, hp⟩ := bind_ok hp
  obtain ⟨ud, hud, hp⟩ := bind_ok hp
  obtain ⟨u, hchk, hp⟩ := bind_ok hp
  simp only [pure] at hp
  cases hp
  have hall := slice_append (slice_append (slice_append (slice_append (slice_append (slice_append hv hk) ht) hpce) hqe) hven) hud
  have hb := slice_full' hall hl.symm
  unfold headerToAbiBytes
  dsimp only
  rw [bind_eq hchk]
  simp only [pure, toLE16_le16 v (slice_len hv), toLE16_le16 k (slice_len hk), toLE32_le32 t (slice_len ht)]
  rw [hb]

theorem fit_eq {b : Bytes} {n : Nat} (h : b.length = n) : fit b n = b := by
  unfold fit zeros; simp [← h]

theorem body_ser {b : Bytes} {t : TdQuoteBody} (hp : tdQuoteBodyToProto b = .ok t) (hl : b.length = 584) :
    tdQuoteBodyToAbiBytes (some t) = .ok b := by
  unfold tdQuoteBodyToProto at hp
  simp only [gen_const, Nat.reduceAdd, Nat.reduceMul] at hp
  obtain ⟨tee, htee, hp⟩ := bind_ok hp
  obtain ⟨seam, hseam, hp⟩ := bind_ok hp
  obtain ⟨sseam, hsseam, hp⟩ := bind_ok hp
  obtain ⟨sattr, hsattr, hp⟩ := bind_ok hp
  obtain ⟨tattr, htattr, hp⟩ := bind_ok hp
  obtain ⟨xfam, hxfam, hp⟩ := bind_ok hp
  obtain ⟨mrtd, hmrtd, hp⟩ := bind_ok hp
  obtain ⟨cfg, hcfg, hp⟩ := bind_ok hp
  obtain ⟨own, hown, hp⟩ := bind_ok hp
  obtain ⟨ownc, hownc, hp⟩ := bind_ok hp
  obtain ⟨rd, hrd, hp⟩ := bind_ok hp
  obtain ⟨r0, hr0, hp⟩ := bind_ok hp
  obtain ⟨r1, hr1, hp⟩ := bind_ok hp
  obtain ⟨r2, hr2, hp⟩ := bind_ok hp
  obtain ⟨r3, hr3, hp⟩ := bind_ok hp
  obtain ⟨u, hchk, hp⟩ := bind_ok hp
  simp only [pure] at hp
  cases hp
  have hall := slice_append (slice_append (slice_append (slice_append (slice_append (slice_append (slice_append
    (slice_append (slice_append (slice_append (slice_append (slice_append (slice_append (slice_append
      htee hseam) hsseam) hsattr) htattr) hxfam) hmrtd) hcfg) hown) hownc) hr0) hr1) hr2) hr3) hrd
  have hb := slice_full' hall hl.symm
  unfold tdQuoteBodyToAbiBytes
  dsimp only
  rw [bind_eq hchk]
  have hrdl : rd.length = abi_ReportDataSize := by simpa using slice_len hrd
  simp only [pure, fit_eq hrdl, List.flatten_cons, List.flatten_nil, List.append_nil]
  rw [← hb]
  simp only [List.append_assoc]

theorem report_ser {b : Bytes} {r : EnclaveReport} (hp : enclaveReportToProto b = .ok r) (hl : b.length = 384) :
    enclaveReportToAbiBytes (some r) = .ok b := by
  unfold enclaveReportToProto at hp
  simp only [gen_const] at hp
  obtain ⟨cpu, hcpu, hp⟩ := bind_ok hp
  obtain ⟨misc, hmisc, hp⟩ := bind_ok hp
  obtain ⟨r1, hr1, hp⟩ := bind_ok hp
  obtain ⟨attr, hattr, hp⟩ := bind_ok hp
  obtain ⟨mre, hmre, hp⟩ := bind_ok hp
  obtain ⟨r2, hr2, hp⟩ := bind_ok hp
  obtain ⟨mrs, hmrs, hp⟩ := bind_ok hp
  obtain ⟨r3, hr3, hp⟩ := bind_ok hp
  obtain ⟨prod, hprod, hp⟩ := bind_ok hp
  obtain ⟨svn, hsvn, hp⟩ := bind_ok hp
  obtain ⟨r4, hr4, hp⟩ := bind_ok hp
  obtain ⟨rd, hrd, hp⟩ := bind_ok hp
  obtain ⟨u, hchk, hp⟩ := bind_ok hp
  simp only [pure] at hp
  cases hp
  have hall := slice_append (slice_append (slice_append (slice_append (slice_append (slice_append (slice_append
    (slice_append (slice_append (slice_append (slice_append hcpu hmisc) hr1) hattr) hmre) hr2) hmrs) hr3) hprod) hsvn) hr4) hrd
  have hb := slice_full' hall hl.symm
  unfold enclaveReportToAbiBytes
  dsimp only
  rw [bind_eq hchk]
  simp only [pure, toLE32_le32 misc (slice_len hmisc), toLE16_le16 prod (slice_len hprod), toLE16_le16 svn (slice_len hsvn)]
  rw [hb]

/-- the auth data occupy a prefix of the input; its end offset is returned -/
theorem auth_ser {b : Bytes} {a : QeAuthData} {n : Nat} (hp : qeAuthDataToProto true b = .ok (a, n)) :
    ∃ ab, qeAuthDataToAbiBytes (some a) = .ok ab ∧ slice b 0 n = .ok ab := by
  unfold qeAuthDataToProto at hp
  simp only [gen_const, ↓reduceIte] at hp
  obtain ⟨_, hp⟩ := guard_ok hp
  obtain ⟨s, hs, hp⟩ := bind_ok hp
  obtain ⟨_, hp⟩ := guard_ok hp
  obtain ⟨d, hd, hp⟩ := bind_ok hp
  obtain ⟨u, hchk, hp⟩ := bind_ok hp
  simp only [pure, Outcome.ok.injEq, Prod.mk.injEq] at hp
  obtain ⟨rfl, rfl⟩ := hp
  refine ⟨toLE16 (le16 s) ++ d, ?_, ?_⟩
  · unfold qeAuthDataToAbiBytes
    dsimp only
    rw [bind_eq hchk]
    simp [pure]
  · have := slice_append hs hd
    simpa [toLE16_le16 s (slice_len hs)] using this

theorem pck_ser {b : Bytes} {p : PckChainData} (hp : pckCertificateChainToProto true b = .ok p) :
    pckChainToAbiBytes (some p) = .ok b := by
  unfold pckCertificateChainToProto at hp
  simp only [gen_const, ↓reduceIte] at hp
  obtain ⟨_, hp⟩ := guard_ok hp
  obtain ⟨t, ht, hp⟩ := bind_ok hp
  obtain ⟨s, hs, hp⟩ := bind_ok hp
  obtain ⟨c, hc, hp⟩ := bind_ok hp
  obtain ⟨u, hchk, hp⟩ := bind_ok hp
  simp only [pure] at hp
  cases hp
  have h1 := slice_append (slice_append ht hs) hc
  have hb := slice_full h1
  unfold pckChainToAbiBytes
  dsimp only
  rw [bind_eq hchk]
  simp only [pure, toLE16_le16 t (slice_len ht), toLE32_le32 s (slice_len hs)]
  rw [hb]

theorem qeCert_ser {b : Bytes} {q : QeReportCertData} (hp : qeReportCertDataToProto true b = .ok q) :
    qeReportCertDataToAbiBytes (some q) = .ok b := by
  unfold qeReportCertDataToProto at hp
  simp only [gen_const, ↓reduceIte] at hp
  obtain ⟨_, hp⟩ := guard_ok hp
  obtain ⟨rb, hrb, hp⟩ := bind_ok hp
  obtain ⟨report, hreport, hp⟩ := bind_ok hp
  obtain ⟨sig, hsig, hp⟩ := bind_ok hp
  obtain ⟨rest, hrest, hp⟩ := bind_ok hp
  obtain ⟨⟨auth, authEnd⟩, hauth, hp⟩ := bind_ok hp
  dsimp only at hp
  obtain ⟨rest2, hrest2, hp⟩ := bind_ok hp
  obtain ⟨pck, hpck, hp⟩ := bind_ok hp
  obtain ⟨u, hchk, hp⟩ := bind_ok hp
  simp only [pure] at hp
  cases hp
  have hR := report_ser hreport (by simpa using slice_len hrb)
  obtain ⟨ab, hA, hAs⟩ := auth_ser hauth
  have hP := pck_ser hpck
  obtain ⟨k1, rfl⟩ := sliceFrom_drop hrest
  obtain ⟨k2, rfl⟩ := sliceFrom_drop hrest2
  have hmid := slice_of_drop hAs k1
  have h1 := slice_append (slice_append hrb hsig) hmid
  have h2 := slice_append h1 (slice_to_end k2)
  have hb := slice_full h2
  unfold qeReportCertDataToAbiBytes
  dsimp only
  rw [bind_eq hchk, bind_eq hR, bind_eq hA, bind_eq hP]
  simp only [pure]
  rw [hb]

theorem cert_ser {b : Bytes} {c : CertificationData} (hp : certificationDataToProto true b = .ok c) :
    certificationDataToAbiBytes (some c) = .ok b := by
  unfold certificationDataToProto at hp
  simp only [gen_const, ↓reduceIte] at hp
  obtain ⟨_, hp⟩ := guard_ok hp
  obtain ⟨t, ht, hp⟩ := bind_ok hp
  obtain ⟨s, hs, hp⟩ := bind_ok hp
  obtain ⟨raw, hraw, hp⟩ := bind_ok hp
  obtain ⟨_, hp⟩ := guard_ok hp
  obtain ⟨qe, hqe, hp⟩ := bind_ok hp
  obtain ⟨u, hchk, hp⟩ := bind_ok hp
  simp only [pure] at hp
  cases hp
  have hQ := qeCert_ser hqe
  obtain ⟨k1, rfl⟩ := sliceFrom_drop hraw
  have h1 := slice_append (slice_append ht hs) (slice_to_end k1)
  have hb := slice_full h1
  unfold certificationDataToAbiBytes
  dsimp only
  rw [bind_eq hchk, bind_eq hQ]
  simp only [pure, toLE16_le16 t (slice_len ht), toLE32_le32 s (slice_len hs)]
  rw [hb]

theorem signed_ser {b : Bytes} {s : SignedData} (hp : signedDataToProto true b = .ok s) :
    signedDataToAbiBytes (some s) = .ok b := by
  unfold signedDataToProto at hp
  simp only [gen_const, ↓reduceIte] at hp
  obtain ⟨_, hp⟩ := guard_ok hp
  obtain ⟨sig, hsig, hp⟩ := bind_ok hp
  obtain ⟨key, hkey, hp⟩ := bind_ok hp
  obtain ⟨rest, hrest, hp⟩ := bind_ok hp
  obtain ⟨cert, hcert, hp⟩ := bind_ok hp
  obtain ⟨u, hchk, hp⟩ := bind_ok hp
  simp only [pure] at hp
  cases hp
  have hC := cert_ser hcert
  obtain ⟨k1, rfl⟩ := sliceFrom_drop hrest
  have h1 := slice_append (slice_append hsig hkey) (slice_to_end k1)
  have hb := slice_full h1
  unfold signedDataToAbiBytes
  dsimp only
  rw [bind_eq hchk, bind_eq hC]
  simp only [pure]
  rw [hb]

/-- the parts of a successful parse, as slices of the input -/
theorem quoteV4_parts {b : Bytes} {q : QuoteV4} (hp : quoteToProtoV4' true b = .ok q) :
    ∃ h t s hb bb, q.header = some h ∧ q.tdQuoteBody = some t ∧ q.signedData = some s ∧
      slice b 0 48 = .ok hb ∧ headerToAbiBytes (some h) = .ok hb ∧
      slice b 48 632 = .ok bb ∧ tdQuoteBodyToAbiBytes (some t) = .ok bb ∧
      quoteToAbiBytes (some q) = .ok b := by
  unfold quoteToProtoV4' at hp
  simp only [gen_const] at hp
  obtain ⟨_, hp⟩ := guard_ok hp
  obtain ⟨hb, hhb, hp⟩ := bind_ok hp
  obtain ⟨header, hheader, hp⟩ := bind_ok hp
  obtain ⟨bb, hbb, hp⟩ := bind_ok hp
  obtain ⟨body, hbody, hp⟩ := bind_ok hp
  obtain ⟨sz, hsz, hp⟩ := bind_ok hp
  obtain ⟨additional, hadd, hp⟩ := bind_ok hp
  obtain ⟨_, hp⟩ := guard_ok hp
  obtain ⟨raw, hraw, hp⟩ := bind_ok hp
  obtain ⟨extra, hextra, hp⟩ := bind_ok hp
  obtain ⟨sd, hsd, hp⟩ := bind_ok hp
  obtain ⟨u, hchk, hp⟩ := bind_ok hp
  simp only [pure] at hp
  cases hp
  have hH := header_ser hheader (by simpa using slice_len hhb)
  have hT := body_ser hbody (by simpa using slice_len hbb)
  have hS := signed_ser hsd
  refine ⟨header, body, sd, hb, bb, rfl, rfl, rfl, hhb, hH, hbb, hT, ?_⟩
  obtain ⟨k1, rfl⟩ := sliceFrom_drop hextra
  have h1 := slice_append (slice_append (slice_append (slice_append hhb hbb) hsz) hraw) (slice_to_end k1)
  have hfull := slice_full h1
  unfold quoteToAbiBytes
  dsimp only
  rw [bind_eq hchk, bind_eq hH, bind_eq hT, bind_eq hS]
  simp only [pure, toLE32_le32 sz (slice_len hsz)]
  rw [hfull]

end Tdx.Abi
