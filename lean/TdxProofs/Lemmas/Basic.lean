/- Helper lemmas about `Outcome`, `guard'`, `slice` and the little-endian codecs. -/
import TdxModel.Basic

namespace Tdx
variable {α β : Type}

theorem bind_ok {x : Outcome α} {f : α → Outcome β} {r : β} (h : (x >>= f) = .ok r) :
    ∃ a, x = .ok a ∧ f a = .ok r := by
  cases x <;> simp [bind] at h ⊢; exact h

theorem bind_eq {x : Outcome α} {a} {f : α → Outcome β} (h : x = .ok a) : (x >>= f) = f a := by
  simp [h, bind]

theorem guard_ok {c e} {f : Unit → Outcome β} {r : β} (h : (guard' c e >>= f) = .ok r) :
    c = true ∧ f () = .ok r := by
  unfold guard' at h; split at h
  · exact ⟨by assumption, by simpa [bind] using h⟩
  · simp [bind] at h

theorem guard_true {c : Bool} {e} {f : Unit → Outcome β} (h : c = true) : (guard' c e >>= f) = f () := by
  simp [guard', h, bind]

theorem guard_unit_ok {c e} (h : guard' c e = .ok ()) : c = true := by
  unfold guard' at h; split at h
  · assumption
  · cases h

theorem guard_false {c : Bool} {e} {f : Unit → Outcome β} (h : c = false) : (guard' c e >>= f) = .err e := by
  simp [guard', h, bind]

@[simp] theorem pure_ne_panic (a : α) : (pure a : Outcome α) ≠ .panic := by simp [pure]
@[simp] theorem ok_ne_panic (a : α) : (Outcome.ok a : Outcome α) ≠ .panic := by simp
@[simp] theorem err_ne_panic (e : String) : (Outcome.err e : Outcome α) ≠ .panic := by simp
@[simp] theorem guard_ne_panic (c : Bool) (e : String) : guard' c e ≠ .panic := by
  unfold guard'; split <;> simp

/-- never-panics is compositional -/
theorem bind_ne_panic_iff {x : Outcome α} {f : α → Outcome β} :
    (x >>= f) ≠ .panic ↔ x ≠ .panic ∧ ∀ a, x = .ok a → f a ≠ .panic := by
  cases x <;> simp [bind]

theorem bind_ne_panic {x : Outcome α} {f : α → Outcome β}
    (hx : x ≠ .panic) (hf : ∀ a, x = .ok a → f a ≠ .panic) : (x >>= f) ≠ .panic :=
  bind_ne_panic_iff.mpr ⟨hx, hf⟩

theorem guard_bind_ne_panic {c e} {f : Unit → Outcome β} (hf : c = true → f () ≠ .panic) :
    (guard' c e >>= f) ≠ .panic := by
  unfold guard'; split
  · simpa [bind] using hf (by assumption)
  · simp [bind]

/-! ### slices -/

theorem slice_ok {b : Bytes} {lo hi : Nat} {r} (h : slice b lo hi = .ok r) :
    lo ≤ hi ∧ hi ≤ b.length ∧ r = (b.take hi).drop lo := by
  unfold slice at h; split at h
  · cases h; simp_all
  · cases h

theorem slice_eq {b : Bytes} {lo hi : Nat} (h : lo ≤ hi ∧ hi ≤ b.length) :
    slice b lo hi = .ok ((b.take hi).drop lo) := by
  unfold slice; simp [h]

theorem slice_len {b : Bytes} {lo hi : Nat} {r} (h : slice b lo hi = .ok r) : r.length = hi - lo := by
  obtain ⟨h1, h2, rfl⟩ := slice_ok h
  simp; omega

theorem slice_ne_panic {b : Bytes} {lo hi} (h : lo ≤ hi ∧ hi ≤ b.length) : slice b lo hi ≠ .panic := by
  unfold slice; simp [h]

theorem slice_ne_err {b : Bytes} {lo hi e} : slice b lo hi ≠ .err e := by
  unfold slice; split <;> simp

theorem slice_append {b : Bytes} {lo mid hi : Nat} {x y}
    (h1 : slice b lo mid = .ok x) (h2 : slice b mid hi = .ok y) : slice b lo hi = .ok (x ++ y) := by
  obtain ⟨a1, a2, rfl⟩ := slice_ok h1
  obtain ⟨b1, b2, rfl⟩ := slice_ok h2
  unfold slice
  have : lo ≤ hi ∧ hi ≤ b.length := ⟨by omega, b2⟩
  simp only [this, and_self, if_true]
  congr 1
  have e : List.take mid b = List.take mid (List.take hi b) := by
    rw [List.take_take]; congr 1; omega
  rw [e, ← List.drop_append_of_le_length (by simp; omega)]
  congr 1
  exact (List.take_append_drop mid (List.take hi b)).symm

theorem slice_full {b : Bytes} {r} (h : slice b 0 b.length = .ok r) : r = b := by
  obtain ⟨_, _, rfl⟩ := slice_ok h; simp

theorem slice_full' {b : Bytes} {n r} (h : slice b 0 n = .ok r) (hn : n = b.length) : r = b := by
  subst hn; exact slice_full h

theorem slice_of_drop {b : Bytes} {k lo hi : Nat} {r} (h : slice (b.drop k) lo hi = .ok r) (hk : k ≤ b.length) :
    slice b (k + lo) (k + hi) = .ok r := by
  obtain ⟨h1, h2, rfl⟩ := slice_ok h
  simp only [List.length_drop] at h2
  unfold slice
  have : k + lo ≤ k + hi ∧ k + hi ≤ b.length := ⟨by omega, by omega⟩
  simp only [this, and_self, if_true]
  congr 1
  rw [List.drop_take, List.drop_take, List.drop_drop]
  congr 1
  omega

/-- a slice of a slice is a slice -/
theorem slice_of_slice {b : Bytes} {k m lo hi : Nat} {s r} (hs : slice b k m = .ok s) (h : slice s lo hi = .ok r) :
    slice b (k + lo) (k + hi) = .ok r := by
  obtain ⟨a1, a2, rfl⟩ := slice_ok hs
  obtain ⟨b1, b2, rfl⟩ := slice_ok h
  simp only [List.length_drop, List.length_take] at b2
  unfold slice
  have : k + lo ≤ k + hi ∧ k + hi ≤ b.length := ⟨by omega, by omega⟩
  simp only [this, and_self, if_true]
  congr 1
  simp only [List.drop_take, List.take_take, List.drop_drop]
  have e1 : min hi (m - k) = hi := by omega
  rw [e1]
  congr 1
  omega

theorem sliceFrom_drop {b : Bytes} {k} {r} (h : sliceFrom b k = .ok r) : k ≤ b.length ∧ r = b.drop k := by
  obtain ⟨h1, _, rfl⟩ := slice_ok h
  exact ⟨h1, by simp⟩

theorem slice_to_end {b : Bytes} {k} (hk : k ≤ b.length) : slice b k b.length = .ok (b.drop k) := by
  unfold slice; simp [hk]

theorem sliceFrom_ne_panic {b : Bytes} {k} (hk : k ≤ b.length) : sliceFrom b k ≠ .panic := by
  unfold sliceFrom; exact slice_ne_panic ⟨hk, Nat.le_refl _⟩

theorem slice_prefix (x y : Bytes) : slice (x ++ y) 0 x.length = .ok x := by
  unfold slice; simp

theorem slice_mid (x y z : Bytes) : slice (x ++ y ++ z) x.length (x.length + y.length) = .ok y := by
  unfold slice
  have : x.length ≤ x.length + y.length ∧ x.length + y.length ≤ (x ++ y ++ z).length := by
    simp only [List.length_append]; omega
  simp only [this, and_self, if_true]
  congr 1
  rw [List.append_assoc, List.drop_take, List.drop_append_of_le_length (Nat.le_refl _)]
  simp

theorem slice_suffix (x y : Bytes) : slice (x ++ y) x.length (x ++ y).length = .ok y := by
  unfold slice
  have : x.length ≤ (x ++ y).length ∧ (x ++ y).length ≤ (x ++ y).length := by simp
  simp only [this, and_self, if_true, List.take_length]
  simp

/-- general form: the middle of a three-part concatenation -/
theorem slice_mid' (x y z : Bytes) (lo hi : Nat) (hlo : lo = x.length) (hhi : hi = x.length + y.length) :
    slice (x ++ y ++ z) lo hi = .ok y := by
  subst hlo hhi; exact slice_mid x y z

/-! ### little-endian -/

theorem toLE16_len (n : Nat) : (toLE16 n).length = 2 := rfl
theorem toLE32_len (n : Nat) : (toLE32 n).length = 4 := rfl

theorem toLE16_le16 (b : Bytes) (h : b.length = 2) : toLE16 (le16 b) = b := by
  match b, h with
  | [x, y], _ =>
    have hx := x.toNat_lt; have hy := y.toNat_lt
    have e1 : UInt8.ofNat ((x.toNat + 256 * y.toNat) % 256) = x := by
      apply UInt8.toNat_inj.mp; simp
    have e2 : UInt8.ofNat ((x.toNat + 256 * y.toNat) / 256 % 256) = y := by
      apply UInt8.toNat_inj.mp; simp; omega
    simp [le16, toLE16, e2]

theorem toLE32_le32 (b : Bytes) (h : b.length = 4) : toLE32 (le32 b) = b := by
  match b, h with
  | [x, y, z, w], _ =>
    have hx := x.toNat_lt; have hy := y.toNat_lt; have hz := z.toNat_lt; have hw := w.toNat_lt
    have e1 : UInt8.ofNat ((x.toNat + 256 * y.toNat + 65536 * z.toNat + 16777216 * w.toNat) % 256) = x := by
      apply UInt8.toNat_inj.mp; simp; omega
    have e2 : UInt8.ofNat ((x.toNat + 256 * y.toNat + 65536 * z.toNat + 16777216 * w.toNat) / 256 % 256) = y := by
      apply UInt8.toNat_inj.mp; simp; omega
    have e3 : UInt8.ofNat ((x.toNat + 256 * y.toNat + 65536 * z.toNat + 16777216 * w.toNat) / 65536 % 256) = z := by
      apply UInt8.toNat_inj.mp; simp; omega
    have e4 : UInt8.ofNat ((x.toNat + 256 * y.toNat + 65536 * z.toNat + 16777216 * w.toNat) / 16777216 % 256) = w := by
      apply UInt8.toNat_inj.mp; simp; omega
    simp [le32, toLE32, e1, e2, e3, e4]

theorem le16_toLE16 (n : Nat) (h : n < 65536) : le16 (toLE16 n) = n := by
  simp [le16, toLE16]; omega
theorem le32_toLE32 (n : Nat) (h : n < 4294967296) : le32 (toLE32 n) = n := by
  simp [le32, toLE32]; omega

theorem le16_lt (b : Bytes) : le16 b < 65536 := by
  unfold le16; split
  · rename_i x y; have := x.toNat_lt; have := y.toNat_lt; omega
  · omega

theorem le32_lt (b : Bytes) : le32 b < 4294967296 := by
  unfold le32; split
  · rename_i x y z w; have := x.toNat_lt; have := y.toNat_lt; have := z.toNat_lt; have := w.toNat_lt; omega
  · omega

end Tdx
