/- abi: nothing panics — the checks and serialisers for every message, the parser for every byte string. -/
import TdxModel.Abi
import TdxProofs.Lemmas.Basic
import TdxProofs.Generated.ConstsSimp
import TdxProofs.Lemmas.AbiRoundTrip

namespace Tdx.Abi
open Tdx Tdx.Gen

@[simp] theorem lenIs_np (b : Bytes) (n : Nat) (w : String) : lenIs b n w ≠ .panic := guard_ne_panic _ _

@[simp] theorem checkHeader_np (o : Option Header) : checkHeader o ≠ .panic := by
  cases o <;> simp [checkHeader, bind_ne_panic_iff]

@[simp] theorem checkRtmrs_np (rs : List Bytes) : checkRtmrs rs ≠ .panic := guard_ne_panic _ _

@[simp] theorem checkTDQuoteBody_np (o : Option TdQuoteBody) : checkTDQuoteBody o ≠ .panic := by
  cases o <;> simp [checkTDQuoteBody, bind_ne_panic_iff]

@[simp] theorem checkPckChain_np (o : Option PckChainData) : checkPckChain o ≠ .panic := by
  cases o <;> simp [checkPckChain, bind_ne_panic_iff]

@[simp] theorem checkQeReport_np (o : Option EnclaveReport) : checkQeReport o ≠ .panic := by
  cases o <;> simp [checkQeReport, bind_ne_panic_iff]

@[simp] theorem checkQeAuthData_np (o : Option QeAuthData) : checkQeAuthData o ≠ .panic := by
  cases o <;> simp [checkQeAuthData, bind_ne_panic_iff]

@[simp] theorem checkQeReportCertData_np (o : Option QeReportCertData) : checkQeReportCertData o ≠ .panic := by
  cases o <;> simp [checkQeReportCertData, bind_ne_panic_iff]

@[simp] theorem checkCertificationData_np (o : Option CertificationData) : checkCertificationData o ≠ .panic := by
  cases o <;> simp [checkCertificationData, bind_ne_panic_iff]

@[simp] theorem checkSignedData_np (o : Option SignedData) : checkSignedData o ≠ .panic := by
  cases o <;> simp [checkSignedData, bind_ne_panic_iff]

@[simp] theorem checkQuoteV4_np (o : Option QuoteV4) : checkQuoteV4 o ≠ .panic := by
  cases o <;> simp [checkQuoteV4, bind_ne_panic_iff]

/-! serialisers -/

@[simp] theorem headerToAbiBytes_np (o : Option Header) : headerToAbiBytes o ≠ .panic := by
  cases o <;> simp [headerToAbiBytes, bind_ne_panic_iff]

@[simp] theorem tdQuoteBodyToAbiBytes_np (o : Option TdQuoteBody) : tdQuoteBodyToAbiBytes o ≠ .panic := by
  cases o <;> simp [tdQuoteBodyToAbiBytes, bind_ne_panic_iff]

@[simp] theorem enclaveReportToAbiBytes_np (o : Option EnclaveReport) : enclaveReportToAbiBytes o ≠ .panic := by
  cases o <;> simp [enclaveReportToAbiBytes, bind_ne_panic_iff]

@[simp] theorem pckChainToAbiBytes_np (o : Option PckChainData) : pckChainToAbiBytes o ≠ .panic := by
  cases o <;> simp [pckChainToAbiBytes, bind_ne_panic_iff]

@[simp] theorem qeAuthDataToAbiBytes_np (o : Option QeAuthData) : qeAuthDataToAbiBytes o ≠ .panic := by
  cases o <;> simp [qeAuthDataToAbiBytes, bind_ne_panic_iff]

@[simp] theorem qeReportCertDataToAbiBytes_np (o : Option QeReportCertData) : qeReportCertDataToAbiBytes o ≠ .panic := by
  cases o <;> simp [qeReportCertDataToAbiBytes, bind_ne_panic_iff]

@[simp] theorem certificationDataToAbiBytes_np (o : Option CertificationData) : certificationDataToAbiBytes o ≠ .panic := by
  cases o <;> simp [certificationDataToAbiBytes, bind_ne_panic_iff]

@[simp] theorem signedDataToAbiBytes_np (o : Option SignedData) : signedDataToAbiBytes o ≠ .panic := by
  cases o <;> simp [signedDataToAbiBytes, bind_ne_panic_iff]

theorem quoteToAbiBytes_np (o : Option QuoteV4) : quoteToAbiBytes o ≠ .panic := by
  cases o <;> simp [quoteToAbiBytes, bind_ne_panic_iff]


/-! parser -/

macro "np_close" : tactic =>
  `(tactic| repeat (first | omega | (refine ⟨by omega, ?_⟩) | (intro h; try simp only [decide_eq_true_eq] at *)))

theorem slice_np_iff {b : Bytes} {lo hi} : slice b lo hi ≠ .panic ↔ lo ≤ hi ∧ hi ≤ b.length := by
  unfold slice; split <;> simp_all

theorem guard_eq_ok_iff {c : Bool} {e : String} {a : Unit} : guard' c e = .ok a ↔ c = true := by
  unfold guard'; split <;> simp_all

theorem headerToProto_np {b : Bytes} (h : 48 ≤ b.length) : headerToProto b ≠ .panic := by
  simp [headerToProto, bind_ne_panic_iff, slice_np_iff]
  np_close

theorem tdQuoteBodyToProto_np {b : Bytes} (h : 584 ≤ b.length) : tdQuoteBodyToProto b ≠ .panic := by
  simp [tdQuoteBodyToProto, bind_ne_panic_iff, slice_np_iff]
  np_close

theorem enclaveReportToProto_np {b : Bytes} (h : 384 ≤ b.length) : enclaveReportToProto b ≠ .panic := by
  simp [enclaveReportToProto, bind_ne_panic_iff, slice_np_iff]
  np_close

theorem qeAuthDataToProto_np (b : Bytes) : qeAuthDataToProto true b ≠ .panic := by
  simp [qeAuthDataToProto, bind_ne_panic_iff, slice_np_iff, guard_eq_ok_iff]
  np_close

theorem pckCertificateChainToProto_np (b : Bytes) : pckCertificateChainToProto true b ≠ .panic := by
  simp [pckCertificateChainToProto, bind_ne_panic_iff, slice_np_iff, guard_eq_ok_iff, sliceFrom]
  np_close

theorem auth_end_le {b : Bytes} {a n} (h : qeAuthDataToProto true b = .ok (a, n)) : n ≤ b.length := by
  obtain ⟨_, _, hs⟩ := auth_ser h
  exact (slice_ok hs).2.1

theorem qeReportCertDataToProto_np (b : Bytes) : qeReportCertDataToProto true b ≠ .panic := by
  unfold qeReportCertDataToProto
  simp only [gen_const, ↓reduceIte]
  refine guard_bind_ne_panic fun h0 => ?_
  simp only [decide_eq_true_eq] at h0
  refine bind_ne_panic (slice_ne_panic (by omega)) fun rb hrb => ?_
  refine bind_ne_panic (enclaveReportToProto_np (by have := slice_len hrb; omega)) fun report _ => ?_
  refine bind_ne_panic (slice_ne_panic (by omega)) fun sg _ => ?_
  refine bind_ne_panic (sliceFrom_ne_panic (by omega)) fun rest hrest => ?_
  refine bind_ne_panic (qeAuthDataToProto_np rest) fun an ha => ?_
  obtain ⟨a, n⟩ := an
  dsimp only
  have hn := auth_end_le ha
  obtain ⟨_, rfl⟩ := sliceFrom_drop hrest
  simp only [List.length_drop] at hn
  refine bind_ne_panic (sliceFrom_ne_panic (by omega)) fun rest2 _ => ?_
  refine bind_ne_panic (pckCertificateChainToProto_np rest2) fun p _ => ?_
  simp [bind_ne_panic_iff]

theorem certificationDataToProto_np (b : Bytes) : certificationDataToProto true b ≠ .panic := by
  unfold certificationDataToProto
  simp only [gen_const, ↓reduceIte]
  refine guard_bind_ne_panic fun h0 => ?_
  simp only [decide_eq_true_eq] at h0
  refine bind_ne_panic (slice_ne_panic (by omega)) fun t _ => ?_
  refine bind_ne_panic (slice_ne_panic (by omega)) fun s _ => ?_
  refine bind_ne_panic (sliceFrom_ne_panic (by omega)) fun raw _ => ?_
  refine guard_bind_ne_panic fun _ => ?_
  refine bind_ne_panic (qeReportCertDataToProto_np raw) fun q _ => ?_
  simp [bind_ne_panic_iff]

theorem signedDataToProto_np (b : Bytes) : signedDataToProto true b ≠ .panic := by
  unfold signedDataToProto
  simp only [gen_const, ↓reduceIte]
  refine guard_bind_ne_panic fun h0 => ?_
  simp only [decide_eq_true_eq] at h0
  refine bind_ne_panic (slice_ne_panic (by omega)) fun sg _ => ?_
  refine bind_ne_panic (slice_ne_panic (by omega)) fun k _ => ?_
  refine bind_ne_panic (sliceFrom_ne_panic (by omega)) fun rest _ => ?_
  refine bind_ne_panic (certificationDataToProto_np rest) fun c _ => ?_
  simp [bind_ne_panic_iff]

theorem quoteToProtoV4_np (b : Bytes) : quoteToProtoV4' true b ≠ .panic := by
  unfold quoteToProtoV4'
  simp only [gen_const]
  refine guard_bind_ne_panic fun h0 => ?_
  simp only [decide_eq_true_eq] at h0
  refine bind_ne_panic (slice_ne_panic (by omega)) fun hb hhb => ?_
  refine bind_ne_panic (headerToProto_np (by have := slice_len hhb; omega)) fun header _ => ?_
  refine bind_ne_panic (slice_ne_panic (by omega)) fun bb hbb => ?_
  refine bind_ne_panic (tdQuoteBodyToProto_np (by have := slice_len hbb; omega)) fun body _ => ?_
  refine bind_ne_panic (slice_ne_panic (by omega)) fun sz _ => ?_
  refine bind_ne_panic (sliceFrom_ne_panic (by omega)) fun additional hadd => ?_
  refine guard_bind_ne_panic fun h1 => ?_
  simp only [decide_eq_true_eq] at h1
  obtain ⟨_, rfl⟩ := sliceFrom_drop hadd
  simp only [List.length_drop] at h1
  refine bind_ne_panic (slice_ne_panic (by omega)) fun raw _ => ?_
  refine bind_ne_panic (sliceFrom_ne_panic (by omega)) fun extra _ => ?_
  refine bind_ne_panic (signedDataToProto_np raw) fun sd _ => ?_
  simp [bind_ne_panic_iff]

theorem quoteToProto_np (b : Bytes) : quoteToProto b ≠ .panic := by
  unfold quoteToProto quoteToProto'
  simp only [gen_const]
  refine guard_bind_ne_panic fun h0 => ?_
  simp only [decide_eq_true_eq] at h0
  refine bind_ne_panic (slice_ne_panic (by omega)) fun v _ => ?_
  refine guard_bind_ne_panic fun _ => ?_
  exact quoteToProtoV4_np b

end Tdx.Abi
