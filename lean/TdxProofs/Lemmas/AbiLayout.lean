/-
  abi: the parser, level by level, as "layout condition ∧ the result is this record of slices"
  (used by C09 `parse_ok_iff_layout`, `fields_are_slices`, `parse_eq_spec`, and by AbiBack).
-/
import TdxModel.AbiSpec
import TdxProofs.Lemmas.AbiRoundTrip
import TdxProofs.Lemmas.AbiNoPanic

namespace Tdx.Abi
open Tdx Tdx.Gen
variable {α β : Type}

/-! ### `sub` -/

theorem sub_eq_take_drop (x : Bytes) (lo hi : Nat) : sub x lo hi = (x.drop lo).take (hi - lo) := by
  simp [sub, List.drop_take]

@[simp] theorem length_sub (x : Bytes) (lo hi : Nat) : (sub x lo hi).length = min hi x.length - lo := by
  simp [sub]

theorem sub_drop (x : Bytes) (k lo hi : Nat) : sub (x.drop k) lo hi = sub x (k + lo) (k + hi) := by
  simp only [sub_eq_take_drop, List.drop_drop]
  congr 1; omega

theorem sub_sub (x : Bytes) (k m lo hi : Nat) (h : k + hi ≤ m) : sub (sub x k m) lo hi = sub x (k + lo) (k + hi) := by
  simp only [sub_eq_take_drop, List.drop_take, List.take_take, List.drop_drop]
  congr 1; omega

theorem drop_sub (x : Bytes) (k m lo : Nat) : (sub x k m).drop lo = sub x (k + lo) m := by
  simp only [sub_eq_take_drop, List.drop_take, List.drop_drop]
  congr 1; omega

theorem sub_zero_length (x : Bytes) : sub x 0 x.length = x := by simp [sub]

theorem sub_to_length (x : Bytes) (k : Nat) : sub x k x.length = x.drop k := by simp [sub]

/-- slices that end inside the first part of a concatenation -/
theorem sub_append_left (x y : Bytes) (lo hi : Nat) (h : hi ≤ x.length) : sub (x ++ y) lo hi = sub x lo hi := by
  simp [sub, List.take_append_of_le_length h]

/-- slices that start behind the first part of a concatenation -/
theorem sub_append_right (x y : Bytes) (lo hi : Nat) (h : x.length ≤ lo) :
    sub (x ++ y) lo hi = sub y (lo - x.length) (hi - x.length) := by
  simp only [sub_eq_take_drop, List.drop_append]
  have : List.drop lo x = [] := List.drop_eq_nil_of_le h
  rw [this, List.nil_append]
  congr 1; omega

/-- the first part of a concatenation -/
theorem sub_append_prefix (x y : Bytes) (hi : Nat) (h : hi = x.length) : sub (x ++ y) 0 hi = x := by
  subst h; simp [sub]

theorem sub_prefix (x : Bytes) (hi : Nat) (h : hi = x.length) : sub x 0 hi = x := by
  subst h; simp [sub]

/-! ### `… = .ok r` through the monad, as rewrite rules -/

theorem bind_slice_ok_iff {b : Bytes} {lo hi} {f : Bytes → Outcome β} {r} :
    (slice b lo hi >>= f) = .ok r ↔ (lo ≤ hi ∧ hi ≤ b.length) ∧ f (sub b lo hi) = .ok r := by
  by_cases h : lo ≤ hi ∧ hi ≤ b.length <;> simp [slice, sub, h, bind]

theorem bind_sliceFrom_ok_iff {b : Bytes} {lo} {f : Bytes → Outcome β} {r} :
    (sliceFrom b lo >>= f) = .ok r ↔ lo ≤ b.length ∧ f (b.drop lo) = .ok r := by
  by_cases h : lo ≤ b.length <;> simp [sliceFrom, slice, h, bind]

theorem bind_guard_ok_iff {c : Bool} {e} {f : Unit → Outcome β} {r} :
    (guard' c e >>= f) = .ok r ↔ c = true ∧ f () = .ok r := by
  cases c <;> simp [guard', bind]

theorem bind_lenIs_ok_iff {x : Bytes} {n e} {f : Unit → Outcome β} {r} :
    (lenIs x n e >>= f) = .ok r ↔ x.length = n ∧ f () = .ok r := by
  unfold lenIs; rw [bind_guard_ok_iff]; simp

theorem lenIs_ok_iff {x : Bytes} {n e} {u} : lenIs x n e = .ok u ↔ x.length = n := by
  unfold lenIs; rw [guard_eq_ok_iff]; simp

theorem pure_ok_iff {a r : α} : (pure a : Outcome α) = .ok r ↔ a = r := by
  simp [pure]

theorem bind_ok_iff {x : Outcome α} {f : α → Outcome β} {r} :
    (x >>= f) = .ok r ↔ ∃ a, x = .ok a ∧ f a = .ok r := by
  cases x <;> simp [bind]

theorem bind_unit_ok_iff {x : Outcome Unit} {f : Unit → Outcome β} {r} :
    (x >>= f) = .ok r ↔ x = .ok () ∧ f () = .ok r := by
  cases x <;> simp [bind]

/-- a step whose success is "condition `C` and the value is `v`" -/
theorem bind_ok_of_iff {x : Outcome α} {C : Prop} {v : α} (hx : ∀ a, x = .ok a ↔ C ∧ a = v)
    {f : α → Outcome β} {r} : (x >>= f) = .ok r ↔ C ∧ f v = .ok r := by
  rw [bind_ok_iff]
  constructor
  · rintro ⟨a, ha, hf⟩
    obtain ⟨hc, rfl⟩ := (hx a).mp ha
    exact ⟨hc, hf⟩
  · rintro ⟨hc, hf⟩
    exact ⟨v, (hx v).mpr ⟨hc, rfl⟩, hf⟩

/-! ### the structural checks as conjunctions -/

theorem checkHeader_ok_iff {h : Header} {u} : checkHeader (some h) = .ok u ↔
    h.version = 4 ∧ h.attestationKeyType = 2 ∧ h.teeType = 129 ∧ h.pceSvn.length = 2 ∧ h.qeSvn.length = 2 ∧
    h.qeVendorId.length = 16 ∧ h.userData.length = 20 := by
  unfold checkHeader
  simp only [gen_const, bind_guard_ok_iff, bind_lenIs_ok_iff, lenIs_ok_iff, decide_eq_true_eq, beq_iff_eq]
  omega

theorem checkTDQuoteBody_ok_iff {t : TdQuoteBody} {u} : checkTDQuoteBody (some t) = .ok u ↔
    t.teeTcbSvn.length = 16 ∧ t.mrSeam.length = 48 ∧ t.mrSignerSeam.length = 48 ∧ t.seamAttributes.length = 8 ∧
    t.tdAttributes.length = 8 ∧ t.xfam.length = 8 ∧ t.mrTd.length = 48 ∧ t.mrConfigId.length = 48 ∧
    t.mrOwner.length = 48 ∧ t.mrOwnerConfig.length = 48 ∧ t.rtmrs.length = 4 ∧ (∀ r ∈ t.rtmrs, r.length = 48) ∧
    t.reportData.length = 64 := by
  unfold checkTDQuoteBody checkRtmrs
  simp only [gen_const, bind_guard_ok_iff, bind_lenIs_ok_iff, guard_eq_ok_iff, beq_iff_eq, List.all_eq_true]
  constructor
  · rintro ⟨a1, a2, a3, a4, a5, a6, a7, a8, a9, a10, a11, a12, a13⟩
    exact ⟨a1, a2, a3, a4, a5, a6, a7, a8, a9, a10, a12, a13, a11⟩
  · rintro ⟨a1, a2, a3, a4, a5, a6, a7, a8, a9, a10, a12, a13, a11⟩
    exact ⟨a1, a2, a3, a4, a5, a6, a7, a8, a9, a10, a11, a12, a13⟩

theorem checkQeReport_ok_iff {r : EnclaveReport} {u} : checkQeReport (some r) = .ok u ↔
    r.cpuSvn.length = 16 ∧ r.reserved1.length = 28 ∧ r.attributes.length = 16 ∧ r.mrEnclave.length = 32 ∧
    r.reserved2.length = 32 ∧ r.mrSigner.length = 32 ∧ r.reserved3.length = 96 ∧ r.isvProdId < 65536 ∧
    r.isvSvn < 65536 ∧ r.reserved4.length = 60 ∧ r.reportData.length = 64 := by
  unfold checkQeReport
  simp only [gen_const, bind_guard_ok_iff, bind_lenIs_ok_iff, lenIs_ok_iff, decide_eq_true_eq]

theorem checkQeAuthData_ok_iff {a : QeAuthData} {u} : checkQeAuthData (some a) = .ok u ↔
    a.parsedDataSize < 65536 ∧ a.parsedDataSize = a.data.length := by
  unfold checkQeAuthData
  simp only [bind_guard_ok_iff, guard_eq_ok_iff, decide_eq_true_eq, beq_iff_eq]

theorem checkPckChain_ok_iff {p : PckChainData} {u} : checkPckChain (some p) = .ok u ↔
    p.certificateDataType = 5 ∧ p.size = p.pckCertChain.length := by
  unfold checkPckChain
  simp only [gen_const, bind_guard_ok_iff, guard_eq_ok_iff, decide_eq_true_eq, beq_iff_eq]
  omega

theorem checkQeReportCertData_ok_iff {q : QeReportCertData} {u} : checkQeReportCertData (some q) = .ok u ↔
    checkQeReport q.qeReport = .ok () ∧ q.qeReportSignature.length = 64 ∧ checkQeAuthData q.qeAuthData = .ok () ∧
    checkPckChain q.pckChain = .ok () := by
  cases u
  unfold checkQeReportCertData
  simp only [gen_const, bind_unit_ok_iff, lenIs_ok_iff]

theorem checkCertificationData_ok_iff {c : CertificationData} {u} : checkCertificationData (some c) = .ok u ↔
    c.certificateDataType = 6 ∧ checkQeReportCertData c.qeReportCertData = .ok () := by
  cases u
  unfold checkCertificationData
  simp only [gen_const, bind_guard_ok_iff, decide_eq_true_eq, beq_iff_eq]
  constructor
  · rintro ⟨_, h, x⟩; exact ⟨h, x⟩
  · rintro ⟨h, x⟩; exact ⟨by omega, h, x⟩

theorem checkSignedData_ok_iff {s : SignedData} {u} : checkSignedData (some s) = .ok u ↔
    s.signature.length = 64 ∧ s.ecdsaAttestationKey.length = 64 ∧ checkCertificationData s.certificationData = .ok () := by
  cases u
  unfold checkSignedData
  simp only [gen_const, bind_lenIs_ok_iff]

theorem checkQuoteV4_ok_iff {q : QuoteV4} {u} : checkQuoteV4 (some q) = .ok u ↔
    checkHeader q.header = .ok () ∧ checkTDQuoteBody q.tdQuoteBody = .ok () ∧ checkSignedData q.signedData = .ok () := by
  cases u
  unfold checkQuoteV4
  simp only [bind_unit_ok_iff]

/-! ### the fixed-size records: what the parser returns, as a function of the input -/

def hdrOf (b : Bytes) : Header :=
  ⟨le16 (sub b 0 2), le16 (sub b 2 4), le32 (sub b 4 8), sub b 8 10, sub b 10 12, sub b 12 28, sub b 28 48⟩

def bodyOf (b : Bytes) : TdQuoteBody :=
  ⟨sub b 0 16, sub b 16 64, sub b 64 112, sub b 112 120, sub b 120 128, sub b 128 136, sub b 136 184, sub b 184 232,
   sub b 232 280, sub b 280 328, [sub b 328 376, sub b 376 424, sub b 424 472, sub b 472 520], sub b 520 584⟩

def reportOf (b : Bytes) : EnclaveReport :=
  ⟨sub b 0 16, le32 (sub b 16 20), sub b 20 48, sub b 48 64, sub b 64 96, sub b 96 128, sub b 128 160, sub b 160 256,
   le16 (sub b 256 258), le16 (sub b 258 260), sub b 260 320, sub b 320 384⟩

theorem headerToProto_ok_iff {b : Bytes} (h : Header) : headerToProto b = .ok h ↔
    (48 ≤ b.length ∧ le16 (sub b 0 2) = 4 ∧ le16 (sub b 2 4) = 2 ∧ le32 (sub b 4 8) = 129) ∧ h = hdrOf b := by
  unfold headerToProto hdrOf
  simp only [gen_const, bind_slice_ok_iff, bind_unit_ok_iff, checkHeader_ok_iff, pure_ok_iff, length_sub]
  constructor
  · rintro ⟨_, _, _, _, _, _, _, ⟨h1, h2, h3, _⟩, rfl⟩
    exact ⟨⟨by omega, h1, h2, h3⟩, rfl⟩
  · rintro ⟨⟨h0, h1, h2, h3⟩, rfl⟩
    simp only [h1, h2, h3, true_and, and_true]
    omega

theorem tdQuoteBodyToProto_ok_iff {b : Bytes} (t : TdQuoteBody) : tdQuoteBodyToProto b = .ok t ↔
    584 ≤ b.length ∧ t = bodyOf b := by
  unfold tdQuoteBodyToProto bodyOf
  simp only [gen_const, Nat.reduceAdd, Nat.reduceMul, bind_slice_ok_iff, bind_unit_ok_iff, checkTDQuoteBody_ok_iff,
    pure_ok_iff, length_sub, List.length_cons, List.length_nil, List.mem_cons, List.not_mem_nil, or_false, forall_eq_or_imp,
    forall_eq]
  constructor
  · rintro ⟨_, _, _, _, _, _, _, _, _, _, _, _, _, _, _, _, _, rfl⟩
    exact ⟨by omega, rfl⟩
  · rintro ⟨h0, rfl⟩
    simp only [true_and, and_true]
    omega

theorem enclaveReportToProto_ok_iff {b : Bytes} (r : EnclaveReport) : enclaveReportToProto b = .ok r ↔
    384 ≤ b.length ∧ r = reportOf b := by
  unfold enclaveReportToProto reportOf
  simp only [gen_const, bind_slice_ok_iff, bind_unit_ok_iff, checkQeReport_ok_iff, pure_ok_iff, length_sub]
  constructor
  · rintro ⟨_, _, _, _, _, _, _, _, _, _, _, _, _, rfl⟩
    exact ⟨by omega, rfl⟩
  · rintro ⟨h0, rfl⟩
    have := le16_lt (sub b 256 258); have := le16_lt (sub b 258 260)
    simp only [and_true]
    omega

theorem bind_header_ok_iff {b : Bytes} {f : Header → Outcome β} {r} : (headerToProto b >>= f) = .ok r ↔
    (48 ≤ b.length ∧ le16 (sub b 0 2) = 4 ∧ le16 (sub b 2 4) = 2 ∧ le32 (sub b 4 8) = 129) ∧ f (hdrOf b) = .ok r :=
  bind_ok_of_iff headerToProto_ok_iff

theorem bind_body_ok_iff {b : Bytes} {f : TdQuoteBody → Outcome β} {r} : (tdQuoteBodyToProto b >>= f) = .ok r ↔
    584 ≤ b.length ∧ f (bodyOf b) = .ok r :=
  bind_ok_of_iff tdQuoteBodyToProto_ok_iff

theorem bind_report_ok_iff {b : Bytes} {f : EnclaveReport → Outcome β} {r} : (enclaveReportToProto b >>= f) = .ok r ↔
    384 ≤ b.length ∧ f (reportOf b) = .ok r :=
  bind_ok_of_iff enclaveReportToProto_ok_iff

theorem checkHeader_hdrOf {b : Bytes} (h : 48 ≤ b.length ∧ le16 (sub b 0 2) = 4 ∧ le16 (sub b 2 4) = 2 ∧ le32 (sub b 4 8) = 129) :
    checkHeader (some (hdrOf b)) = .ok () := by
  rw [checkHeader_ok_iff]; simp only [hdrOf, length_sub]; omega

theorem checkTDQuoteBody_bodyOf {b : Bytes} (h : 584 ≤ b.length) : checkTDQuoteBody (some (bodyOf b)) = .ok () := by
  rw [checkTDQuoteBody_ok_iff]
  simp only [bodyOf, length_sub, List.length_cons, List.length_nil, List.mem_cons, List.not_mem_nil, or_false, forall_eq_or_imp,
    forall_eq, true_and]
  omega

theorem checkQeReport_reportOf {b : Bytes} (h : 384 ≤ b.length) : checkQeReport (some (reportOf b)) = .ok () := by
  rw [checkQeReport_ok_iff]; simp only [reportOf, length_sub]
  have := le16_lt (sub b 256 258); have := le16_lt (sub b 258 260)
  omega

/-! ### the variable-length tail, each level relative to its own input -/

def authOf (b : Bytes) : QeAuthData := ⟨le16 (sub b 0 2), sub b 2 (2 + le16 (sub b 0 2))⟩
def AuthOK (b : Bytes) : Prop := 2 ≤ b.length ∧ 2 + le16 (sub b 0 2) ≤ b.length

def pckOf (b : Bytes) : PckChainData := ⟨le16 (sub b 0 2), le32 (sub b 2 6), b.drop 6⟩
def PckOK (b : Bytes) : Prop := 6 ≤ b.length ∧ le16 (sub b 0 2) = 5 ∧ le32 (sub b 2 6) = b.length - 6

theorem qeAuthDataToProto_ok_iff {b : Bytes} (x : QeAuthData × Nat) : qeAuthDataToProto true b = .ok x ↔
    AuthOK b ∧ x = (authOf b, 2 + le16 (sub b 0 2)) := by
  unfold qeAuthDataToProto AuthOK authOf
  simp only [gen_const, ↓reduceIte, bind_slice_ok_iff, guard_eq_ok_iff, bind_unit_ok_iff, checkQeAuthData_ok_iff, pure_ok_iff,
    length_sub, decide_eq_true_eq]
  constructor
  · rintro ⟨_, _, _, _, _, rfl⟩
    exact ⟨by omega, rfl⟩
  · rintro ⟨h0, rfl⟩
    have := le16_lt (sub b 0 2)
    simp only [and_true]
    omega

theorem checkQeAuthData_authOf {b : Bytes} (h : AuthOK b) : checkQeAuthData (some (authOf b)) = .ok () := by
  rw [checkQeAuthData_ok_iff]; simp only [authOf, length_sub]
  have := le16_lt (sub b 0 2); unfold AuthOK at h
  omega

theorem pckCertificateChainToProto_ok_iff {b : Bytes} (p : PckChainData) : pckCertificateChainToProto true b = .ok p ↔
    PckOK b ∧ p = pckOf b := by
  unfold pckCertificateChainToProto PckOK pckOf
  simp only [gen_const, ↓reduceIte, bind_slice_ok_iff, bind_sliceFrom_ok_iff, guard_eq_ok_iff, bind_unit_ok_iff,
    checkPckChain_ok_iff, pure_ok_iff, List.length_drop, decide_eq_true_eq]
  constructor
  · rintro ⟨_, _, _, _, ⟨h1, h2⟩, rfl⟩
    exact ⟨⟨by omega, h1, h2⟩, rfl⟩
  · rintro ⟨⟨h0, h1, h2⟩, rfl⟩
    simp only [h1, h2, and_true]
    omega

theorem checkPckChain_pckOf {b : Bytes} (h : PckOK b) : checkPckChain (some (pckOf b)) = .ok () := by
  rw [checkPckChain_ok_iff]; simp only [pckOf, List.length_drop]; exact ⟨h.2.1, h.2.2⟩

theorem bind_auth_ok_iff {b : Bytes} {f : QeAuthData × Nat → Outcome β} {r} : (qeAuthDataToProto true b >>= f) = .ok r ↔
    AuthOK b ∧ f (authOf b, 2 + le16 (sub b 0 2)) = .ok r :=
  bind_ok_of_iff qeAuthDataToProto_ok_iff

theorem bind_pck_ok_iff {b : Bytes} {f : PckChainData → Outcome β} {r} : (pckCertificateChainToProto true b >>= f) = .ok r ↔
    PckOK b ∧ f (pckOf b) = .ok r :=
  bind_ok_of_iff pckCertificateChainToProto_ok_iff

/-- QE report 384 ‖ signature 64 ‖ auth data ‖ PCK chain -/
def qeCertOf (b : Bytes) : QeReportCertData :=
  ⟨some (reportOf (sub b 0 384)), sub b 384 448, some (authOf (b.drop 448)),
   some (pckOf (b.drop (448 + (2 + le16 (sub (b.drop 448) 0 2)))))⟩
def QeCertOK (b : Bytes) : Prop :=
  448 ≤ b.length ∧ AuthOK (b.drop 448) ∧ PckOK (b.drop (448 + (2 + le16 (sub (b.drop 448) 0 2))))

theorem qeReportCertDataToProto_ok_iff {b : Bytes} (q : QeReportCertData) : qeReportCertDataToProto true b = .ok q ↔
    QeCertOK b ∧ q = qeCertOf b := by
  unfold qeReportCertDataToProto QeCertOK qeCertOf
  simp only [gen_const, ↓reduceIte, bind_slice_ok_iff, bind_sliceFrom_ok_iff, guard_eq_ok_iff, bind_unit_ok_iff,
    bind_report_ok_iff, bind_auth_ok_iff, bind_pck_ok_iff, checkQeReportCertData_ok_iff, pure_ok_iff, length_sub,
    decide_eq_true_eq]
  constructor
  · rintro ⟨h0, _, _, _, _, ha, _, hp, _, rfl⟩
    exact ⟨⟨h0, ha, hp⟩, rfl⟩
  · rintro ⟨⟨h0, ha, hp⟩, rfl⟩
    have hl : 384 ≤ min 384 b.length - 0 := by omega
    have hae : 2 + le16 (sub (b.drop 448) 0 2) ≤ (b.drop 448).length := ha.2
    rw [List.length_drop] at hae
    refine ⟨h0, ⟨by omega, by omega⟩, hl, ⟨by omega, by omega⟩, h0, ha, by omega, hp,
      ⟨checkQeReport_reportOf (by simpa only [length_sub] using hl), by omega, checkQeAuthData_authOf ha, checkPckChain_pckOf hp⟩, rfl⟩

theorem checkQeReportCertData_qeCertOf {b : Bytes} (h : QeCertOK b) : checkQeReportCertData (some (qeCertOf b)) = .ok () := by
  rw [checkQeReportCertData_ok_iff]
  obtain ⟨h0, ha, hp⟩ := h
  have hl : 384 ≤ (sub b 0 384).length := by rw [length_sub]; omega
  exact ⟨checkQeReport_reportOf hl, by simp only [qeCertOf, length_sub]; omega, checkQeAuthData_authOf ha, checkPckChain_pckOf hp⟩

theorem bind_qeCert_ok_iff {b : Bytes} {f : QeReportCertData → Outcome β} {r} :
    (qeReportCertDataToProto true b >>= f) = .ok r ↔ QeCertOK b ∧ f (qeCertOf b) = .ok r :=
  bind_ok_of_iff qeReportCertDataToProto_ok_iff

/-- type 2 ‖ size 4 ‖ QE report certification data -/
def certOf (b : Bytes) : CertificationData := ⟨le16 (sub b 0 2), le32 (sub b 2 6), some (qeCertOf (b.drop 6))⟩
def CertOK (b : Bytes) : Prop :=
  6 ≤ b.length ∧ le16 (sub b 0 2) = 6 ∧ le32 (sub b 2 6) = b.length - 6 ∧ QeCertOK (b.drop 6)

theorem certificationDataToProto_ok_iff {b : Bytes} (c : CertificationData) : certificationDataToProto true b = .ok c ↔
    CertOK b ∧ c = certOf b := by
  unfold certificationDataToProto CertOK certOf
  simp only [gen_const, ↓reduceIte, bind_slice_ok_iff, bind_sliceFrom_ok_iff, guard_eq_ok_iff, bind_unit_ok_iff,
    bind_qeCert_ok_iff, checkCertificationData_ok_iff, pure_ok_iff, List.length_drop, decide_eq_true_eq, beq_iff_eq]
  constructor
  · rintro ⟨h0, _, _, _, hs, hq, ⟨ht, _⟩, rfl⟩
    exact ⟨⟨h0, ht, hs.symm, hq⟩, rfl⟩
  · rintro ⟨⟨h0, ht, hs, hq⟩, rfl⟩
    exact ⟨h0, ⟨by omega, by omega⟩, ⟨by omega, by omega⟩, h0, hs.symm, hq, ⟨ht, checkQeReportCertData_qeCertOf hq⟩, rfl⟩

theorem checkCertificationData_certOf {b : Bytes} (h : CertOK b) : checkCertificationData (some (certOf b)) = .ok () := by
  rw [checkCertificationData_ok_iff]
  exact ⟨h.2.1, checkQeReportCertData_qeCertOf h.2.2.2⟩

theorem bind_cert_ok_iff {b : Bytes} {f : CertificationData → Outcome β} {r} :
    (certificationDataToProto true b >>= f) = .ok r ↔ CertOK b ∧ f (certOf b) = .ok r :=
  bind_ok_of_iff certificationDataToProto_ok_iff

/-- signature 64 ‖ attestation key 64 ‖ certification data -/
def signedOf (b : Bytes) : SignedData := ⟨sub b 0 64, sub b 64 128, some (certOf (b.drop 128))⟩
def SignedOK (b : Bytes) : Prop := 128 ≤ b.length ∧ CertOK (b.drop 128)

theorem signedDataToProto_ok_iff {b : Bytes} (s : SignedData) : signedDataToProto true b = .ok s ↔
    SignedOK b ∧ s = signedOf b := by
  unfold signedDataToProto SignedOK signedOf
  simp only [gen_const, ↓reduceIte, bind_slice_ok_iff, bind_sliceFrom_ok_iff, guard_eq_ok_iff, bind_unit_ok_iff,
    bind_cert_ok_iff, checkSignedData_ok_iff, pure_ok_iff, length_sub, decide_eq_true_eq]
  constructor
  · rintro ⟨h0, _, _, _, hc, _, rfl⟩
    exact ⟨⟨h0, hc⟩, rfl⟩
  · rintro ⟨⟨h0, hc⟩, rfl⟩
    exact ⟨h0, ⟨by omega, by omega⟩, ⟨by omega, by omega⟩, h0, hc, ⟨by omega, by omega, checkCertificationData_certOf hc⟩, rfl⟩

theorem checkSignedData_signedOf {b : Bytes} (h : SignedOK b) : checkSignedData (some (signedOf b)) = .ok () := by
  rw [checkSignedData_ok_iff]
  obtain ⟨h0, hc⟩ := h
  exact ⟨by simp only [signedOf, length_sub]; omega, by simp only [signedOf, length_sub]; omega, checkCertificationData_certOf hc⟩

theorem bind_signed_ok_iff {b : Bytes} {f : SignedData → Outcome β} {r} :
    (signedDataToProto true b >>= f) = .ok r ↔ SignedOK b ∧ f (signedOf b) = .ok r :=
  bind_ok_of_iff signedDataToProto_ok_iff

/-- header 48 ‖ TD body 584 ‖ signed-data size 4 ‖ signed data ‖ extra bytes -/
def quoteOf (b : Bytes) : QuoteV4 :=
  ⟨some (hdrOf (sub b 0 48)), some (bodyOf (sub b 48 632)), le32 (sub b 632 636),
   some (signedOf (sub b 636 (636 + le32 (sub b 632 636)))), b.drop (636 + le32 (sub b 632 636))⟩
def QuoteOK (b : Bytes) : Prop :=
  1020 ≤ b.length ∧ (le16 (sub b 0 2) = 4 ∧ le16 (sub b 2 4) = 2 ∧ le32 (sub b 4 8) = 129) ∧
  636 + le32 (sub b 632 636) ≤ b.length ∧ SignedOK (sub b 636 (636 + le32 (sub b 632 636)))

theorem quoteToProtoV4_ok_iff {b : Bytes} (q : QuoteV4) : quoteToProtoV4' true b = .ok q ↔ QuoteOK b ∧ q = quoteOf b := by
  unfold quoteToProtoV4' QuoteOK quoteOf
  simp only [gen_const, bind_slice_ok_iff, bind_sliceFrom_ok_iff, guard_eq_ok_iff, bind_unit_ok_iff,
    bind_header_ok_iff, bind_body_ok_iff, bind_signed_ok_iff, checkQuoteV4_ok_iff, pure_ok_iff, length_sub, List.length_drop,
    decide_eq_true_eq]
  constructor
  · rintro ⟨h0, _, ⟨_, h1, h2, h3⟩, _, _, _, _, hn, _, _, hs, _, rfl⟩
    rw [sub_sub _ _ _ _ _ (by omega)] at h1 h2 h3
    exact ⟨⟨h0, ⟨h1, h2, h3⟩, by omega, hs⟩, rfl⟩
  · rintro ⟨⟨h0, ⟨h1, h2, h3⟩, hn, hs⟩, rfl⟩
    have hh : 48 ≤ min 48 b.length - 0 ∧ le16 (sub (sub b 0 48) 0 2) = 4 ∧ le16 (sub (sub b 0 48) 2 4) = 2 ∧
        le32 (sub (sub b 0 48) 4 8) = 129 := by
      rw [sub_sub _ _ _ _ _ (by omega), sub_sub _ _ _ _ _ (by omega), sub_sub _ _ _ _ _ (by omega)]
      exact ⟨by omega, h1, h2, h3⟩
    have hb : 584 ≤ min 632 b.length - 48 := by omega
    refine ⟨h0, ⟨by omega, by omega⟩, hh, ⟨by omega, by omega⟩, hb, ⟨by omega, by omega⟩, by omega, by omega,
      ⟨by omega, by omega⟩, by omega, hs, ⟨checkHeader_hdrOf ?_, checkTDQuoteBody_bodyOf ?_, checkSignedData_signedOf hs⟩, rfl⟩
    · simpa only [length_sub] using hh
    · simpa only [length_sub] using hb

theorem quoteToProto_ok_iff {b : Bytes} (q : QuoteV4) : quoteToProto b = .ok q ↔ QuoteOK b ∧ q = quoteOf b := by
  rw [← quoteToProtoV4_ok_iff]
  unfold quoteToProto quoteToProto'
  simp only [gen_const, bind_slice_ok_iff, bind_guard_ok_iff, decide_eq_true_eq, beq_iff_eq]
  constructor
  · rintro ⟨_, _, _, h⟩; exact h
  · intro h
    obtain ⟨⟨h0, ⟨h1, _⟩, _⟩, _⟩ := (quoteToProtoV4_ok_iff q).mp h
    exact ⟨by omega, ⟨by omega, by omega⟩, h1, h⟩

/-! ### the layout predicate of the specification, and absolute offsets -/

theorem quoteOK_iff_layout (b : Bytes) : QuoteOK b ↔ V4Layout b := by
  unfold QuoteOK V4Layout SignedOK CertOK QeCertOK AuthOK PckOK
  simp only [sub_drop, List.drop_drop, List.length_drop, length_sub, Nat.reduceAdd, Nat.add_zero]
  generalize le32 (sub b 632 636) = n
  generalize sub b 636 (636 + n) = sd
  generalize le16 (sub sd 582 584) = a
  have e1 : 134 + (448 + (2 + a)) = 584 + a := by omega
  have e2 : 584 + a + 2 = 586 + a := by omega
  have e3 : 584 + a + 6 = 590 + a := by omega
  have f1 : 134 + (450 + a) = 584 + a := by omega
  have f2 : 134 + (452 + a) = 586 + a := by omega
  have f3 : 134 + (456 + a) = 590 + a := by omega
  simp only [e1, e2, e3, f1, f2, f3]
  omega

/-- every field at its absolute offset -/
def absQuote (b : Bytes) : QuoteV4 :=
  let n := le32 (sub b 632 636)
  let a := le16 (sub b 1218 1220)
  ⟨some ⟨le16 (sub b 0 2), le16 (sub b 2 4), le32 (sub b 4 8), sub b 8 10, sub b 10 12, sub b 12 28, sub b 28 48⟩,
   some ⟨sub b 48 64, sub b 64 112, sub b 112 160, sub b 160 168, sub b 168 176, sub b 176 184, sub b 184 232, sub b 232 280,
         sub b 280 328, sub b 328 376, [sub b 376 424, sub b 424 472, sub b 472 520, sub b 520 568], sub b 568 632⟩,
   n,
   some ⟨sub b 636 700, sub b 700 764,
     some ⟨le16 (sub b 764 766), le32 (sub b 766 770),
       some ⟨some ⟨sub b 770 786, le32 (sub b 786 790), sub b 790 818, sub b 818 834, sub b 834 866, sub b 866 898,
                   sub b 898 930, sub b 930 1026, le16 (sub b 1026 1028), le16 (sub b 1028 1030), sub b 1030 1090,
                   sub b 1090 1154⟩,
             sub b 1154 1218,
             some ⟨a, sub b 1220 (1220 + a)⟩,
             some ⟨le16 (sub b (1220 + a) (1222 + a)), le32 (sub b (1222 + a) (1226 + a)), sub b (1226 + a) (636 + n)⟩⟩⟩⟩,
   b.drop (636 + n)⟩

theorem sub_congr (x : Bytes) {lo lo' hi hi' : Nat} (h1 : lo = lo') (h2 : hi = hi') : sub x lo hi = sub x lo' hi' := by
  rw [h1, h2]

/-- the arithmetic content of the layout, on the absolute size fields -/
theorem quoteOK_sizes {b : Bytes} (h : QuoteOK b) :
    636 + le32 (sub b 632 636) ≤ b.length ∧ 590 + le16 (sub b 1218 1220) ≤ le32 (sub b 632 636) := by
  unfold QuoteOK SignedOK CertOK QeCertOK AuthOK PckOK at h
  simp only [sub_drop, List.drop_drop, List.length_drop, length_sub, Nat.reduceAdd, Nat.add_zero] at h
  obtain ⟨_, _, hn, _, _, _, _, _, ⟨h2, _⟩, h6, _⟩ := h
  rw [sub_sub _ _ _ _ _ (by omega)] at h6
  simp only [Nat.reduceAdd] at h6
  omega

theorem quoteOf_eq_abs {b : Bytes} (h : QuoteOK b) : quoteOf b = absQuote b := by
  obtain ⟨hn, ha⟩ := quoteOK_sizes h
  unfold quoteOf absQuote hdrOf bodyOf signedOf certOf qeCertOf reportOf authOf pckOf
  simp only [drop_sub, Nat.reduceAdd]
  have e0 : sub (sub b 1218 (636 + le32 (sub b 632 636))) 0 2 = sub b 1218 1220 := by
    rw [sub_sub _ _ _ _ _ (by omega)]
  rw [e0]
  generalize le16 (sub b 1218 1220) = a at ha ⊢
  generalize le32 (sub b 632 636) = n at hn ha ⊢
  simp (disch := omega) only [sub_sub, Nat.reduceAdd, Nat.add_zero]
  have e1 : 1218 + (2 + a) = 1220 + a := by omega
  have e2 : 770 + (448 + (2 + a)) = 1220 + a := by omega
  have e3 : 1220 + a + 2 = 1222 + a := by omega
  have e4 : 1220 + a + 6 = 1226 + a := by omega
  simp only [e1, e2, e3, e4]

theorem quoteToProto_ok_iff_abs {b : Bytes} (q : QuoteV4) : quoteToProto b = .ok q ↔ V4Layout b ∧ q = absQuote b := by
  rw [quoteToProto_ok_iff, ← quoteOK_iff_layout]
  constructor
  · rintro ⟨h, rfl⟩; exact ⟨h, quoteOf_eq_abs h⟩
  · rintro ⟨h, rfl⟩; exact ⟨h, (quoteOf_eq_abs h).symm⟩

theorem fieldsAreSlices_abs (b : Bytes) : FieldsAreSlices b (absQuote b) := by
  constructor <;> first | rfl | exact ⟨rfl, rfl, rfl, rfl, rfl, rfl, rfl, rfl⟩

/-- a fully populated quote, rebuilt from its getters -/
def ofGetters (q : QuoteV4) : QuoteV4 :=
  ⟨some ⟨q.hdr.version, q.hdr.attestationKeyType, q.hdr.teeType, q.hdr.pceSvn, q.hdr.qeSvn, q.hdr.qeVendorId, q.hdr.userData⟩,
   some ⟨q.body.teeTcbSvn, q.body.mrSeam, q.body.mrSignerSeam, q.body.seamAttributes, q.body.tdAttributes, q.body.xfam,
         q.body.mrTd, q.body.mrConfigId, q.body.mrOwner, q.body.mrOwnerConfig, q.body.rtmrs, q.body.reportData⟩,
   q.signedDataSize,
   some ⟨q.signed.signature, q.signed.ecdsaAttestationKey,
     some ⟨q.cert.certificateDataType, q.cert.size,
       some ⟨some ⟨q.qeReport.cpuSvn, q.qeReport.miscSelect, q.qeReport.reserved1, q.qeReport.attributes, q.qeReport.mrEnclave,
                   q.qeReport.reserved2, q.qeReport.mrSigner, q.qeReport.reserved3, q.qeReport.isvProdId, q.qeReport.isvSvn,
                   q.qeReport.reserved4, q.qeReport.reportData⟩,
             q.qeCert.qeReportSignature,
             some ⟨q.auth.parsedDataSize, q.auth.data⟩,
             some ⟨q.pck.certificateDataType, q.pck.size, q.pck.pckCertChain⟩⟩⟩⟩,
   q.extraBytes⟩

theorem allPresent_shape {q : QuoteV4} (hp : AllPresent q) :
    q = ⟨some q.hdr, some q.body, q.signedDataSize,
         some ⟨q.signed.signature, q.signed.ecdsaAttestationKey,
           some ⟨q.cert.certificateDataType, q.cert.size,
             some ⟨some q.qeReport, q.qeCert.qeReportSignature, some q.auth, some q.pck⟩⟩⟩, q.extraBytes⟩ := by
  obtain ⟨p1, p2, p3, p4, p5, p6, p7, p8⟩ := hp
  rw [← p6, ← p7, ← p8, ← p5, ← p4, ← p3, ← p2, ← p1]

theorem eq_ofGetters {q : QuoteV4} (hp : AllPresent q) : q = ofGetters q := allPresent_shape hp

/-- …and the slices determine the quote -/
theorem eq_abs_of_fieldsAreSlices {b : Bytes} {q : QuoteV4} (h : FieldsAreSlices b q) : q = absQuote b := by
  rw [eq_ofGetters h.present]
  unfold ofGetters absQuote
  simp only [h.version, h.attestationKeyType, h.teeType, h.pceSvn, h.qeSvn, h.qeVendorId, h.userData,
    h.teeTcbSvn, h.mrSeam, h.mrSignerSeam, h.seamAttributes, h.tdAttributes, h.xfam, h.mrTd, h.mrConfigId, h.mrOwner,
    h.mrOwnerConfig, h.rtmrs, h.reportData, h.signedDataSize, h.signature, h.attestationKey, h.certType, h.certSize,
    h.cpuSvn, h.miscSelect, h.reserved1, h.attributes, h.mrEnclave, h.reserved2, h.mrSigner, h.reserved3, h.isvProdId,
    h.isvSvn, h.reserved4, h.qeReportData, h.qeReportSignature, h.authSize, h.authData, h.pckType, h.pckSize, h.pckChain,
    h.extraBytes]

/-! ### the reference parser of the specification accepts the same inputs with the same result -/

theorem next_eq (n : Nat) (b : Bytes) : next n b = if n ≤ b.length then some (sub b 0 n, b.drop n) else none := by
  simp [next, sub]

theorem next_bind_iff {n : Nat} {b : Bytes} {f : Bytes × Bytes → Option β} {r : β} :
    (next n b).bind f = some r ↔ n ≤ b.length ∧ f (sub b 0 n, b.drop n) = some r := by
  by_cases h : n ≤ b.length <;> simp [next, h, sub]

theorem guard_bind_iff {p : Prop} [Decidable p] {f : Unit → Option β} {r : β} :
    (guard p : Option Unit).bind f = some r ↔ p ∧ f () = some r := by
  by_cases h : p <;> simp [guard, h, failure]

/-- the fields of a record, cut out of the front of `b` -/
def cut : Table → Bytes → List Bytes
  | [], _ => []
  | (_, n) :: tbl, b => sub b 0 n :: cut tbl (b.drop n)

def total : Table → Nat
  | [] => 0
  | (_, n) :: tbl => n + total tbl

theorem readRecord_eq (tbl : Table) (b : Bytes) :
    readRecord tbl b = if total tbl ≤ b.length then some (cut tbl b, b.drop (total tbl)) else none := by
  induction tbl generalizing b with
  | nil => simp [readRecord, total, cut]
  | cons e tbl ih =>
    obtain ⟨_, n⟩ := e
    simp only [readRecord, total, cut, Option.bind_eq_bind, Option.pure_def, next_eq, ih]
    by_cases h1 : n ≤ b.length
    · by_cases h2 : total tbl ≤ b.length - n
      · have : n + total tbl ≤ b.length := by omega
        simp [h1, h2, this, List.length_drop, List.drop_drop]
      · have : ¬ n + total tbl ≤ b.length := by omega
        simp [h1, h2, this, List.length_drop]
    · have : ¬ n + total tbl ≤ b.length := by omega
      simp [h1, this]

theorem readRecord_bind_iff {tbl : Table} {b : Bytes} {f : List Bytes × Bytes → Option β} {r : β} :
    (readRecord tbl b).bind f = some r ↔ total tbl ≤ b.length ∧ f (cut tbl b, b.drop (total tbl)) = some r := by
  rw [readRecord_eq]
  by_cases h : total tbl ≤ b.length <;> simp [h]

theorem specHeader_bind_iff {b : Bytes} {f : Header × Bytes → Option β} {r : β} :
    (specHeader b).bind f = some r ↔ 48 ≤ b.length ∧ f (hdrOf b, b.drop 48) = some r := by
  unfold specHeader hdrOf
  simp only [Option.bind_eq_bind, Option.pure_def, Option.bind_assoc, readRecord_bind_iff, headerTable, total, cut, sub_drop, List.drop_drop, Nat.reduceAdd, Nat.add_zero, Option.bind_some]

theorem specBody_bind_iff {b : Bytes} {f : TdQuoteBody × Bytes → Option β} {r : β} :
    (specBody b).bind f = some r ↔ 584 ≤ b.length ∧ f (bodyOf b, b.drop 584) = some r := by
  unfold specBody bodyOf
  simp only [Option.bind_eq_bind, Option.pure_def, Option.bind_assoc, readRecord_bind_iff, tdBodyTable, total, cut, sub_drop,
    List.drop_drop, Nat.reduceAdd, Nat.add_zero, Option.bind_some]

theorem specReport_bind_iff {b : Bytes} {f : EnclaveReport × Bytes → Option β} {r : β} :
    (specReport b).bind f = some r ↔ 384 ≤ b.length ∧ f (reportOf b, b.drop 384) = some r := by
  unfold specReport reportOf
  simp only [Option.bind_eq_bind, Option.pure_def, Option.bind_assoc, readRecord_bind_iff, qeReportTable, total, cut, sub_drop,
    List.drop_drop, Nat.reduceAdd, Nat.add_zero, Option.bind_some]

/-- a fixed-size record only looks at its own bytes -/
theorem hdrOf_sub (b : Bytes) : hdrOf (sub b 0 48) = hdrOf b := by
  unfold hdrOf; simp (disch := omega) only [sub_sub, Nat.reduceAdd]

theorem bodyOf_sub (b : Bytes) : bodyOf (sub b 48 632) = bodyOf (b.drop 48) := by
  unfold bodyOf; simp (disch := omega) only [sub_sub, sub_drop, Nat.reduceAdd]

theorem reportOf_sub (b : Bytes) (k m : Nat) (h : k + 384 ≤ m) : reportOf (sub b k m) = reportOf (b.drop k) := by
  unfold reportOf; simp (disch := omega) only [sub_sub, sub_drop]

theorem and_eq_iff {α : Type} {A B : Prop} {x y z : α} (hxy : x = y) (h : A ↔ B) : (A ∧ x = z) ↔ (B ∧ z = y) := by
  subst hxy; rw [h]; exact and_congr_right fun _ => eq_comm

theorem specParse_eq_some_iff {b : Bytes} (q : QuoteV4) : specParse b = some q ↔ QuoteOK b ∧ q = quoteOf b := by
  unfold specParse QuoteOK SignedOK CertOK QeCertOK AuthOK PckOK quoteOf signedOf certOf qeCertOf authOf pckOf
  simp only [Option.bind_eq_bind, Option.pure_def, specHeader_bind_iff, specBody_bind_iff, specReport_bind_iff,
    next_bind_iff, guard_bind_iff, hdrOf_sub, bodyOf_sub, sub_drop, List.drop_drop, List.length_drop,
    length_sub, Nat.reduceAdd, Nat.add_zero, Option.some.injEq]
  generalize le32 (sub b 632 636) = n
  generalize sub b 636 (636 + n) = sd
  generalize le16 (sub sd 582 584) = a
  have e1 : 134 + (448 + (2 + a)) = 584 + a := by omega
  have e2 : 584 + a + 2 = 586 + a := by omega
  have e3 : 584 + a + 6 = 590 + a := by omega
  have e4 : 586 + a + 4 = 590 + a := by omega
  have e5 : 582 + (2 + a) = 584 + a := by omega
  simp (disch := omega) only [e1, e2, e3, e4, e5, hdrOf, reportOf_sub]
  simp only [← and_assoc]
  refine and_eq_iff ?_ ?_
  · rfl
  · omega


theorem toOption_eq_some_iff {x : Outcome α} {a : α} : x.toOption = some a ↔ x = .ok a := by
  cases x <;> simp [Outcome.toOption]

theorem quoteToProto_toOption (b : Bytes) : (quoteToProto b).toOption = specParse b := by
  apply Option.ext
  intro q
  rw [toOption_eq_some_iff, quoteToProto_ok_iff, specParse_eq_some_iff]

end Tdx.Abi
