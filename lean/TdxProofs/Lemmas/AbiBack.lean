/-
  abi: serialise → parse direction (C09 `parse_serialize`): what each serialiser writes for a message
  that passes its check, and that the parser reads exactly that message back.
-/
import TdxModel.AbiSpec
import TdxProofs.Lemmas.AbiLayout

namespace Tdx.Abi
open Tdx Tdx.Gen

/-! ### more `sub` / `drop` on concatenations -/

theorem sub_of_length_le (x : Bytes) (hi : Nat) (h : x.length ≤ hi) : sub x 0 hi = x := by
  simp [sub, List.take_of_length_le h]

theorem sub_append_mid (x y z : Bytes) (lo hi : Nat) (hlo : lo = x.length) (hhi : hi = lo + y.length) :
    sub (x ++ (y ++ z)) lo hi = y := by
  subst hlo hhi
  rw [sub_append_right _ _ _ _ (Nat.le_refl _), Nat.sub_self, Nat.add_sub_cancel_left, sub_append_prefix _ _ _ rfl]

theorem drop_append_len (x y : Bytes) (n : Nat) (h : n = x.length) : (x ++ y).drop n = y := by
  subst h; simp

/-- side conditions of the `sub_append_*` rewrites: lengths of concatenations of fields of known length -/
macro "len_disch" : tactic =>
  `(tactic| first | omega | (simp only [List.length_append, toLE16_len, toLE32_len]; first | done | omega))

/-! ### what the serialisers write -/

def hdrBytes (h : Header) : Bytes :=
  toLE16 h.version ++ toLE16 h.attestationKeyType ++ toLE32 h.teeType ++ h.pceSvn ++ h.qeSvn ++ h.qeVendorId ++ h.userData

def bodyBytes (t : TdQuoteBody) : Bytes :=
  t.teeTcbSvn ++ t.mrSeam ++ t.mrSignerSeam ++ t.seamAttributes ++ t.tdAttributes ++ t.xfam ++ t.mrTd ++
    t.mrConfigId ++ t.mrOwner ++ t.mrOwnerConfig ++ t.rtmrs.flatten ++ t.reportData

def reportBytes (r : EnclaveReport) : Bytes :=
  r.cpuSvn ++ toLE32 r.miscSelect ++ r.reserved1 ++ r.attributes ++ r.mrEnclave ++ r.reserved2 ++
    r.mrSigner ++ r.reserved3 ++ toLE16 r.isvProdId ++ toLE16 r.isvSvn ++ r.reserved4 ++ r.reportData

def authBytes (a : QeAuthData) : Bytes := toLE16 a.parsedDataSize ++ a.data

def pckBytes (p : PckChainData) : Bytes := toLE16 p.certificateDataType ++ toLE32 p.size ++ p.pckCertChain

/-! ### fixed-size records -/

theorem header_back {h : Header} (hc : checkHeader (some h) = .ok ()) :
    headerToAbiBytes (some h) = .ok (hdrBytes h) ∧ headerToProto (hdrBytes h) = .ok h ∧ (hdrBytes h).length = 48 := by
  refine ⟨by simp only [headerToAbiBytes, bind_eq hc, pure, hdrBytes], ?_⟩
  obtain ⟨h1, h2, h3, l1, l2, l3, l4⟩ := checkHeader_ok_iff.mp hc
  obtain ⟨v, k, t, pce, qe, ven, ud⟩ := h
  dsimp only at h1 h2 h3 l1 l2 l3 l4
  subst h1 h2 h3
  rw [headerToProto_ok_iff]
  simp (disch := len_disch) only [hdrBytes, hdrOf, List.append_assoc, sub_append_left, sub_append_right, sub_of_length_le,
    toLE16_len, toLE32_len, l1, l2, l3, l4, Nat.reduceSub, List.length_append, le16_toLE16, le32_toLE32, and_true,
    Nat.reduceAdd, Nat.le_refl]

theorem list_length_four {α} {l : List α} (h : l.length = 4) : ∃ a b c d, l = [a, b, c, d] := by
  match l, h with
  | [a, b, c, d], _ => exact ⟨a, b, c, d, rfl⟩

theorem body_back {t : TdQuoteBody} (hc : checkTDQuoteBody (some t) = .ok ()) (hrd : t.reportData.length = 64) :
    tdQuoteBodyToAbiBytes (some t) = .ok (bodyBytes t) ∧ tdQuoteBodyToProto (bodyBytes t) = .ok t ∧
    (bodyBytes t).length = 584 := by
  refine ⟨by simp only [tdQuoteBodyToAbiBytes, bind_eq hc, pure, bodyBytes, fit_eq hrd], ?_⟩
  obtain ⟨l1, l2, l3, l4, l5, l6, l7, l8, l9, l10, l11, l12, _⟩ := checkTDQuoteBody_ok_iff.mp hc
  obtain ⟨tee, seam, sseam, sattr, tattr, xfam, mrtd, cfg, own, ownc, rtmrs, rd⟩ := t
  dsimp only at l1 l2 l3 l4 l5 l6 l7 l8 l9 l10 l11 l12 hrd
  obtain ⟨r0, r1, r2, r3, rfl⟩ := list_length_four l11
  simp only [List.mem_cons, List.not_mem_nil, or_false, forall_eq_or_imp, forall_eq] at l12
  obtain ⟨m0, m1, m2, m3⟩ := l12
  rw [tdQuoteBodyToProto_ok_iff]
  simp (disch := len_disch) only [bodyBytes, bodyOf, List.flatten_cons, List.flatten_nil, List.append_nil, List.append_assoc,
    sub_append_left, sub_append_right, sub_of_length_le, l1, l2, l3, l4, l5, l6, l7, l8, l9, l10, m0, m1, m2, m3, hrd,
    Nat.reduceSub, List.length_append, and_true, Nat.reduceAdd, Nat.le_refl]

theorem report_back {r : EnclaveReport} (hc : checkQeReport (some r) = .ok ()) (hm : r.miscSelect < 2 ^ 32) :
    enclaveReportToAbiBytes (some r) = .ok (reportBytes r) ∧ enclaveReportToProto (reportBytes r) = .ok r ∧
    (reportBytes r).length = 384 := by
  refine ⟨by simp only [enclaveReportToAbiBytes, bind_eq hc, pure, reportBytes], ?_⟩
  obtain ⟨l1, l2, l3, l4, l5, l6, l7, l8, l9, l10, l11⟩ := checkQeReport_ok_iff.mp hc
  obtain ⟨cpu, misc, r1, attr, mre, r2, mrs, r3, prod, svn, r4, rd⟩ := r
  dsimp only at l1 l2 l3 l4 l5 l6 l7 l8 l9 l10 l11 hm
  rw [enclaveReportToProto_ok_iff]
  simp (disch := len_disch) only [reportBytes, reportOf, List.append_assoc,
    sub_append_left, sub_append_right, sub_of_length_le, l1, l2, l3, l4, l5, l6, l7, l10, l11, toLE16_len, toLE32_len,
    le16_toLE16, le32_toLE32, Nat.reduceSub, List.length_append, and_true, Nat.reduceAdd, Nat.le_refl]

/-! ### the variable-length tail -/

theorem authBytes_len (a : QeAuthData) : (authBytes a).length = 2 + a.data.length := by
  simp only [authBytes, List.length_append, toLE16_len]

theorem pckBytes_len (p : PckChainData) : (pckBytes p).length = 6 + p.pckCertChain.length := by
  simp only [pckBytes, List.length_append, toLE16_len, toLE32_len]

/-- the auth data are read back from the front of whatever follows them -/
theorem auth_back {a : QeAuthData} (hc : checkQeAuthData (some a) = .ok ()) (rest : Bytes) :
    qeAuthDataToAbiBytes (some a) = .ok (authBytes a) ∧
    qeAuthDataToProto true (authBytes a ++ rest) = .ok (a, 2 + a.data.length) := by
  refine ⟨by simp only [qeAuthDataToAbiBytes, bind_eq hc, pure, authBytes], ?_⟩
  obtain ⟨h1, h2⟩ := checkQeAuthData_ok_iff.mp hc
  obtain ⟨n, d⟩ := a
  dsimp only at h1 h2
  subst h2
  have e1 : sub (authBytes ⟨d.length, d⟩ ++ rest) 0 2 = toLE16 d.length := by
    simp only [authBytes, List.append_assoc]; exact sub_append_prefix _ _ _ rfl
  rw [qeAuthDataToProto_ok_iff]
  unfold AuthOK authOf
  rw [e1, le16_toLE16 _ h1]
  have e2 : sub (authBytes ⟨d.length, d⟩ ++ rest) 2 (2 + d.length) = d := by
    simp only [authBytes, List.append_assoc]; exact sub_append_mid _ _ _ _ _ rfl rfl
  rw [e2]
  refine ⟨⟨?_, ?_⟩, rfl⟩ <;> simp only [List.length_append, authBytes_len] <;> omega

theorem pck_back {p : PckChainData} (hc : checkPckChain (some p) = .ok ()) (hs : p.size < 2 ^ 32) :
    pckChainToAbiBytes (some p) = .ok (pckBytes p) ∧ pckCertificateChainToProto true (pckBytes p) = .ok p := by
  refine ⟨by simp only [pckChainToAbiBytes, bind_eq hc, pure, pckBytes], ?_⟩
  obtain ⟨h1, h2⟩ := checkPckChain_ok_iff.mp hc
  obtain ⟨ty, sz, c⟩ := p
  dsimp only at h1 h2 hs
  subst h1 h2
  have e1 : sub (pckBytes ⟨5, c.length, c⟩) 0 2 = toLE16 5 := by
    simp only [pckBytes, List.append_assoc]; exact sub_append_prefix _ _ _ rfl
  have e2 : sub (pckBytes ⟨5, c.length, c⟩) 2 6 = toLE32 c.length := by
    simp only [pckBytes, List.append_assoc]; exact sub_append_mid _ _ _ _ _ rfl rfl
  have e3 : (pckBytes ⟨5, c.length, c⟩).drop 6 = c := by
    simp only [pckBytes]; exact drop_append_len _ _ _ rfl
  rw [pckCertificateChainToProto_ok_iff]
  unfold PckOK pckOf
  rw [e1, e2, e3, le16_toLE16 _ (by omega), le32_toLE32 _ (by omega), pckBytes_len]
  dsimp only
  exact ⟨⟨by omega, rfl, by omega⟩, rfl⟩

/-- QE report 384 ‖ signature 64 ‖ auth data ‖ PCK chain -/
def qeCertBytes (r : EnclaveReport) (sig : Bytes) (a : QeAuthData) (p : PckChainData) : Bytes :=
  reportBytes r ++ sig ++ authBytes a ++ pckBytes p

theorem qeCert_back {r : EnclaveReport} {sig : Bytes} {a : QeAuthData} {p : PckChainData}
    (hc : checkQeReportCertData (some ⟨some r, sig, some a, some p⟩) = .ok ())
    (hm : r.miscSelect < 2 ^ 32) (hs : p.size < 2 ^ 32) :
    qeReportCertDataToAbiBytes (some ⟨some r, sig, some a, some p⟩) = .ok (qeCertBytes r sig a p) ∧
    qeReportCertDataToProto true (qeCertBytes r sig a p) = .ok ⟨some r, sig, some a, some p⟩ ∧
    (qeCertBytes r sig a p).length = 384 + 64 + 2 + a.data.length + 6 + p.pckCertChain.length := by
  obtain ⟨hr, hsig, ha, hp⟩ := checkQeReportCertData_ok_iff.mp hc
  dsimp only at hr hsig ha hp
  obtain ⟨sr, pr, lr⟩ := report_back hr hm
  obtain ⟨sa, -⟩ := auth_back ha []
  have pa := (auth_back ha (pckBytes p)).2
  obtain ⟨sp, pp⟩ := pck_back hp hs
  have hlen : (qeCertBytes r sig a p).length = 384 + 64 + 2 + a.data.length + 6 + p.pckCertChain.length := by
    simp only [qeCertBytes, List.length_append, lr, hsig, authBytes_len, pckBytes_len]; omega
  refine ⟨?_, ?_, hlen⟩
  · unfold qeReportCertDataToAbiBytes
    dsimp only
    rw [bind_eq hc, bind_eq sr, bind_eq sa, bind_eq sp]
    rfl
  · have e1 : sub (qeCertBytes r sig a p) 0 384 = reportBytes r := by
      simp only [qeCertBytes, List.append_assoc]; exact sub_append_prefix _ _ _ lr.symm
    have e2 : sub (qeCertBytes r sig a p) 384 448 = sig := by
      simp only [qeCertBytes, List.append_assoc]; exact sub_append_mid _ _ _ _ _ lr.symm (by omega)
    have e3 : (qeCertBytes r sig a p).drop 448 = authBytes a ++ pckBytes p := by
      simp only [qeCertBytes, List.append_assoc]
      rw [← List.append_assoc]
      exact drop_append_len _ _ _ (by simp only [List.length_append, lr, hsig])
    obtain ⟨hao, hae⟩ := (qeAuthDataToProto_ok_iff _).mp pa
    simp only [Prod.mk.injEq] at hae
    obtain ⟨hae1, hae2⟩ := hae
    have e4 : (qeCertBytes r sig a p).drop (448 + (2 + a.data.length)) = pckBytes p := by
      rw [← List.drop_drop, e3]
      exact drop_append_len _ _ _ (authBytes_len a).symm
    rw [qeReportCertDataToProto_ok_iff]
    unfold QeCertOK qeCertOf
    rw [e1, e2, e3, ← hae2, e4, ← hae1]
    refine ⟨⟨by omega, hao, (pckCertificateChainToProto_ok_iff _).mp pp |>.1⟩, ?_⟩
    rw [← ((enclaveReportToProto_ok_iff _).mp pr).2, ← ((pckCertificateChainToProto_ok_iff _).mp pp).2]

/-- type 2 ‖ size 4 ‖ QE report certification data -/
def certBytes (ct cs : Nat) (r : EnclaveReport) (sig : Bytes) (a : QeAuthData) (p : PckChainData) : Bytes :=
  toLE16 ct ++ toLE32 cs ++ qeCertBytes r sig a p

theorem cert_back {ct cs : Nat} {r : EnclaveReport} {sig : Bytes} {a : QeAuthData} {p : PckChainData}
    (hc : checkCertificationData (some ⟨ct, cs, some ⟨some r, sig, some a, some p⟩⟩) = .ok ())
    (hm : r.miscSelect < 2 ^ 32) (hs : p.size < 2 ^ 32) (hcs : cs < 2 ^ 32)
    (hsz : cs = 384 + 64 + 2 + a.data.length + 6 + p.pckCertChain.length) :
    certificationDataToAbiBytes (some ⟨ct, cs, some ⟨some r, sig, some a, some p⟩⟩) = .ok (certBytes ct cs r sig a p) ∧
    certificationDataToProto true (certBytes ct cs r sig a p) = .ok ⟨ct, cs, some ⟨some r, sig, some a, some p⟩⟩ ∧
    (certBytes ct cs r sig a p).length = 6 + cs := by
  obtain ⟨ht, hq⟩ := checkCertificationData_ok_iff.mp hc
  dsimp only at ht hq
  obtain ⟨sq, pq, lq⟩ := qeCert_back hq hm hs
  have hlen : (certBytes ct cs r sig a p).length = 6 + cs := by
    simp only [certBytes, List.length_append, toLE16_len, toLE32_len, lq]; omega
  refine ⟨?_, ?_, hlen⟩
  · unfold certificationDataToAbiBytes
    dsimp only
    rw [bind_eq hc, bind_eq sq]
    rfl
  · have e1 : sub (certBytes ct cs r sig a p) 0 2 = toLE16 ct := by
      simp only [certBytes, List.append_assoc]; exact sub_append_prefix _ _ _ rfl
    have e2 : sub (certBytes ct cs r sig a p) 2 6 = toLE32 cs := by
      simp only [certBytes, List.append_assoc]; exact sub_append_mid _ _ _ _ _ rfl rfl
    have e3 : (certBytes ct cs r sig a p).drop 6 = qeCertBytes r sig a p := by
      simp only [certBytes]; exact drop_append_len _ _ _ rfl
    obtain ⟨hqo, hqe⟩ := (qeReportCertDataToProto_ok_iff _).mp pq
    rw [certificationDataToProto_ok_iff]
    unfold CertOK certOf
    rw [e1, e2, e3, le16_toLE16 _ (by omega), le32_toLE32 _ (by omega), ← hqe, hlen]
    exact ⟨⟨by omega, ht, by omega, hqo⟩, rfl⟩

/-- signature 64 ‖ attestation key 64 ‖ certification data -/
def signedBytes (sig key : Bytes) (ct cs : Nat) (r : EnclaveReport) (qsig : Bytes) (a : QeAuthData) (p : PckChainData) : Bytes :=
  sig ++ key ++ certBytes ct cs r qsig a p

theorem signed_back {sig key : Bytes} {ct cs : Nat} {r : EnclaveReport} {qsig : Bytes} {a : QeAuthData} {p : PckChainData}
    (hc : checkSignedData (some ⟨sig, key, some ⟨ct, cs, some ⟨some r, qsig, some a, some p⟩⟩⟩) = .ok ())
    (hm : r.miscSelect < 2 ^ 32) (hs : p.size < 2 ^ 32) (hcs : cs < 2 ^ 32)
    (hsz : cs = 384 + 64 + 2 + a.data.length + 6 + p.pckCertChain.length) :
    signedDataToAbiBytes (some ⟨sig, key, some ⟨ct, cs, some ⟨some r, qsig, some a, some p⟩⟩⟩)
      = .ok (signedBytes sig key ct cs r qsig a p) ∧
    signedDataToProto true (signedBytes sig key ct cs r qsig a p)
      = .ok ⟨sig, key, some ⟨ct, cs, some ⟨some r, qsig, some a, some p⟩⟩⟩ ∧
    (signedBytes sig key ct cs r qsig a p).length = 64 + 64 + 6 + cs := by
  obtain ⟨h1, h2, hq⟩ := checkSignedData_ok_iff.mp hc
  dsimp only at h1 h2 hq
  obtain ⟨sq, pq, lq⟩ := cert_back hq hm hs hcs hsz
  have hlen : (signedBytes sig key ct cs r qsig a p).length = 64 + 64 + 6 + cs := by
    simp only [signedBytes, List.length_append, h1, h2, lq]; omega
  refine ⟨?_, ?_, hlen⟩
  · unfold signedDataToAbiBytes
    dsimp only
    rw [bind_eq hc, bind_eq sq]
    rfl
  · have e1 : sub (signedBytes sig key ct cs r qsig a p) 0 64 = sig := by
      simp only [signedBytes, List.append_assoc]; exact sub_append_prefix _ _ _ h1.symm
    have e2 : sub (signedBytes sig key ct cs r qsig a p) 64 128 = key := by
      simp only [signedBytes, List.append_assoc]; exact sub_append_mid _ _ _ _ _ h1.symm (by omega)
    have e3 : (signedBytes sig key ct cs r qsig a p).drop 128 = certBytes ct cs r qsig a p := by
      simp only [signedBytes]; exact drop_append_len _ _ _ (by simp only [List.length_append, h1, h2])
    obtain ⟨hqo, hqe⟩ := (certificationDataToProto_ok_iff _).mp pq
    rw [signedDataToProto_ok_iff]
    unfold SignedOK signedOf
    rw [e1, e2, e3, ← hqe, hlen]
    exact ⟨⟨by omega, hqo⟩, rfl⟩

/-- header 48 ‖ TD body 584 ‖ signed-data size 4 ‖ signed data ‖ extra bytes -/
def quoteBytes (h : Header) (t : TdQuoteBody) (n : Nat) (sig key : Bytes) (ct cs : Nat) (r : EnclaveReport) (qsig : Bytes)
    (a : QeAuthData) (p : PckChainData) (extra : Bytes) : Bytes :=
  hdrBytes h ++ bodyBytes t ++ toLE32 n ++ signedBytes sig key ct cs r qsig a p ++ extra

theorem quote_back {h : Header} {t : TdQuoteBody} {n : Nat} {sig key : Bytes} {ct cs : Nat} {r : EnclaveReport} {qsig : Bytes}
    {a : QeAuthData} {p : PckChainData} {extra : Bytes}
    (hc : checkQuoteV4 (some ⟨some h, some t, n, some ⟨sig, key, some ⟨ct, cs, some ⟨some r, qsig, some a, some p⟩⟩⟩, extra⟩) = .ok ())
    (hrd : t.reportData.length = 64)
    (hn : n < 2 ^ 32) (hcs : cs < 2 ^ 32) (hm : r.miscSelect < 2 ^ 32) (hs : p.size < 2 ^ 32)
    (hsz : cs = 384 + 64 + 2 + a.data.length + 6 + p.pckCertChain.length) (hnz : n = 64 + 64 + 6 + cs) :
    quoteToAbiBytes (some ⟨some h, some t, n, some ⟨sig, key, some ⟨ct, cs, some ⟨some r, qsig, some a, some p⟩⟩⟩, extra⟩)
      = .ok (quoteBytes h t n sig key ct cs r qsig a p extra) ∧
    quoteToProto (quoteBytes h t n sig key ct cs r qsig a p extra)
      = .ok ⟨some h, some t, n, some ⟨sig, key, some ⟨ct, cs, some ⟨some r, qsig, some a, some p⟩⟩⟩, extra⟩ := by
  obtain ⟨hh, ht, hsd⟩ := checkQuoteV4_ok_iff.mp hc
  dsimp only at hh ht hsd
  obtain ⟨sh, ph, lh⟩ := header_back hh
  obtain ⟨st, pt, lt⟩ := body_back ht hrd
  obtain ⟨ss, ps, ls⟩ := signed_back hsd hm hs hcs hsz
  constructor
  · unfold quoteToAbiBytes
    dsimp only
    rw [bind_eq hc, bind_eq sh, bind_eq st, bind_eq ss]
    rfl
  · have e1 : sub (quoteBytes h t n sig key ct cs r qsig a p extra) 0 48 = hdrBytes h := by
      simp only [quoteBytes, List.append_assoc]; exact sub_append_prefix _ _ _ lh.symm
    have e2 : sub (quoteBytes h t n sig key ct cs r qsig a p extra) 48 632 = bodyBytes t := by
      simp only [quoteBytes, List.append_assoc]; exact sub_append_mid _ _ _ _ _ lh.symm (by omega)
    have e3 : sub (quoteBytes h t n sig key ct cs r qsig a p extra) 632 636 = toLE32 n := by
      simp only [quoteBytes, List.append_assoc]
      rw [← List.append_assoc]
      exact sub_append_mid _ _ _ _ _ (by simp only [List.length_append, lh, lt]) (by simp only [toLE32_len])
    have e4 : sub (quoteBytes h t n sig key ct cs r qsig a p extra) 636 (636 + n) = signedBytes sig key ct cs r qsig a p := by
      simp only [quoteBytes, List.append_assoc]
      rw [← List.append_assoc, ← List.append_assoc]
      exact sub_append_mid _ _ _ _ _ (by simp only [List.length_append, lh, lt, toLE32_len]) (by omega)
    have e5 : (quoteBytes h t n sig key ct cs r qsig a p extra).drop (636 + n) = extra := by
      simp only [quoteBytes]
      exact drop_append_len _ _ _ (by simp only [List.length_append, lh, lt, toLE32_len, ls]; omega)
    have hlen : (quoteBytes h t n sig key ct cs r qsig a p extra).length = 636 + n + extra.length := by
      simp only [quoteBytes, List.length_append, lh, lt, toLE32_len, ls]; omega
    obtain ⟨hho, hhe⟩ := (headerToProto_ok_iff _).mp ph
    obtain ⟨-, hte⟩ := (tdQuoteBodyToProto_ok_iff _).mp pt
    obtain ⟨hso, hse⟩ := (signedDataToProto_ok_iff _).mp ps
    have e1a : sub (quoteBytes h t n sig key ct cs r qsig a p extra) 0 2 = sub (hdrBytes h) 0 2 := by
      rw [← e1, sub_sub _ _ _ _ _ (by omega)]
    have e1b : sub (quoteBytes h t n sig key ct cs r qsig a p extra) 2 4 = sub (hdrBytes h) 2 4 := by
      rw [← e1, sub_sub _ _ _ _ _ (by omega)]
    have e1c : sub (quoteBytes h t n sig key ct cs r qsig a p extra) 4 8 = sub (hdrBytes h) 4 8 := by
      rw [← e1, sub_sub _ _ _ _ _ (by omega)]
    rw [quoteToProto_ok_iff]
    unfold QuoteOK quoteOf
    rw [e1a, e1b, e1c, e3, le32_toLE32 _ (by omega), e1, e2, e4, e5, ← hhe, ← hte, ← hse, hlen]
    exact ⟨⟨by omega, hho.2, by omega, hso⟩, rfl⟩

/-! ### inconsistent sizes -/

/-- the layout conditions on the absolute size fields -/
theorem v4Layout_abs {b : Bytes} (h : V4Layout b) :
    636 + sdSizeOf b ≤ b.length ∧ 590 + authSizeOf b ≤ sdSizeOf b ∧ le32 (sub b 766 770) = sdSizeOf b - 134 ∧
    le32 (sub b (1222 + authSizeOf b) (1226 + authSizeOf b)) = sdSizeOf b - (590 + authSizeOf b) := by
  have hq := (quoteOK_iff_layout b).mpr h
  obtain ⟨hn, ha⟩ := quoteOK_sizes hq
  unfold V4Layout at h
  simp only [sub_drop, List.length_drop, length_sub, Nat.reduceAdd] at h
  obtain ⟨_, _, _, _, _, _, _, h1, _, _, _, h2⟩ := h
  unfold sdSizeOf authSizeOf
  have e0 : sub (sub b 636 (636 + le32 (sub b 632 636))) 582 584 = sub b 1218 1220 := by
    rw [sub_sub _ _ _ _ _ (by omega)]
  rw [e0] at h2
  rw [sub_sub _ _ _ _ _ (by omega)] at h1 h2
  refine ⟨hn, ha, ?_, ?_⟩
  · simpa only [Nat.reduceAdd] using h1
  · rw [sub_congr b (lo' := 636 + (134 + (452 + le16 (sub b 1218 1220)))) (hi' := 636 + (134 + (456 + le16 (sub b 1218 1220)))) (by omega) (by omega), h2]
    omega

/-! ### presence of the sub-messages follows from the check -/

theorem checkHeader_some {o : Option Header} (h : checkHeader o = .ok ()) : ∃ x, o = some x := by
  cases o with
  | none => simp [checkHeader] at h
  | some x => exact ⟨x, rfl⟩
theorem checkTDQuoteBody_some {o : Option TdQuoteBody} (h : checkTDQuoteBody o = .ok ()) : ∃ x, o = some x := by
  cases o with
  | none => simp [checkTDQuoteBody] at h
  | some x => exact ⟨x, rfl⟩
theorem checkSignedData_some {o : Option SignedData} (h : checkSignedData o = .ok ()) : ∃ x, o = some x := by
  cases o with
  | none => simp [checkSignedData] at h
  | some x => exact ⟨x, rfl⟩
theorem checkCertificationData_some {o : Option CertificationData} (h : checkCertificationData o = .ok ()) : ∃ x, o = some x := by
  cases o with
  | none => simp [checkCertificationData] at h
  | some x => exact ⟨x, rfl⟩
theorem checkQeReportCertData_some {o : Option QeReportCertData} (h : checkQeReportCertData o = .ok ()) : ∃ x, o = some x := by
  cases o with
  | none => simp [checkQeReportCertData] at h
  | some x => exact ⟨x, rfl⟩
theorem checkQeReport_some {o : Option EnclaveReport} (h : checkQeReport o = .ok ()) : ∃ x, o = some x := by
  cases o with
  | none => simp [checkQeReport] at h
  | some x => exact ⟨x, rfl⟩
theorem checkQeAuthData_some {o : Option QeAuthData} (h : checkQeAuthData o = .ok ()) : ∃ x, o = some x := by
  cases o with
  | none => simp [checkQeAuthData] at h
  | some x => exact ⟨x, rfl⟩
theorem checkPckChain_some {o : Option PckChainData} (h : checkPckChain o = .ok ()) : ∃ x, o = some x := by
  cases o with
  | none => simp [checkPckChain] at h
  | some x => exact ⟨x, rfl⟩

theorem allPresent_of_check {q : QuoteV4} (hc : checkQuoteV4 (some q) = .ok ()) : AllPresent q := by
  obtain ⟨hh, ht, hs⟩ := checkQuoteV4_ok_iff.mp hc
  obtain ⟨h, e1⟩ := checkHeader_some hh
  obtain ⟨t, e2⟩ := checkTDQuoteBody_some ht
  obtain ⟨s, e3⟩ := checkSignedData_some hs
  rw [e3] at hs
  obtain ⟨_, _, hcd⟩ := checkSignedData_ok_iff.mp hs
  obtain ⟨c, e4⟩ := checkCertificationData_some hcd
  rw [e4] at hcd
  obtain ⟨_, hqc⟩ := checkCertificationData_ok_iff.mp hcd
  obtain ⟨qc, e5⟩ := checkQeReportCertData_some hqc
  rw [e5] at hqc
  obtain ⟨hr, _, ha, hp⟩ := checkQeReportCertData_ok_iff.mp hqc
  obtain ⟨r, e6⟩ := checkQeReport_some hr
  obtain ⟨a, e7⟩ := checkQeAuthData_some ha
  obtain ⟨p, e8⟩ := checkPckChain_some hp
  have g3 : q.signed = s := by simp [QuoteV4.signed, e3]
  have g4 : q.cert = c := by simp [QuoteV4.cert, g3, e4]
  have g5 : q.qeCert = qc := by simp [QuoteV4.qeCert, g4, e5]
  refine ⟨by simp [QuoteV4.hdr, e1], by simp [QuoteV4.body, e2], by rw [g3, e3], by rw [g3, g4, e4], by rw [g4, g5, e5], ?_, ?_, ?_⟩
  · rw [g5, e6]; simp [QuoteV4.qeReport, g5, e6]
  · rw [g5, e7]; simp [QuoteV4.auth, g5, e7]
  · rw [g5, e8]; simp [QuoteV4.pck, g5, e8]


theorem ok_bind {α β} (a : α) (f : α → Outcome β) : (Outcome.ok a >>= f) = f a := rfl
theorem pure_eq_ok {α} (a : α) : (pure a : Outcome α) = .ok a := rfl

/-- what `tdQuoteBodyToAbiBytes` writes: the report data truncated / zero-padded to 64 bytes -/
def bodyBytesFit (t : TdQuoteBody) : Bytes :=
  t.teeTcbSvn ++ t.mrSeam ++ t.mrSignerSeam ++ t.seamAttributes ++ t.tdAttributes ++ t.xfam ++ t.mrTd ++
    t.mrConfigId ++ t.mrOwner ++ t.mrOwnerConfig ++ t.rtmrs.flatten ++ fit t.reportData 64

theorem fit_length (x : Bytes) (n : Nat) : (fit x n).length = n := by
  simp [fit, zeros]; omega

theorem bodyBytesFit_len {t : TdQuoteBody} (hc : checkTDQuoteBody (some t) = .ok ()) : (bodyBytesFit t).length = 584 := by
  have h1 : checkTDQuoteBody (some { t with reportData := fit t.reportData 64 }) = .ok () := by
    rw [checkTDQuoteBody_ok_iff] at hc ⊢
    obtain ⟨a1, a2, a3, a4, a5, a6, a7, a8, a9, a10, a11, a12, _⟩ := hc
    exact ⟨a1, a2, a3, a4, a5, a6, a7, a8, a9, a10, a11, a12, fit_length _ _⟩
  exact (body_back h1 (fit_length _ _)).2.2

/-- the serialiser on a message that passes the check (no assumption on sizes or ranges) -/
theorem quote_ser_eq {h : Header} {t : TdQuoteBody} {n : Nat} {sig key : Bytes} {ct cs : Nat} {r : EnclaveReport} {qsig : Bytes}
    {a : QeAuthData} {p : PckChainData} {extra : Bytes}
    (hc : checkQuoteV4 (some ⟨some h, some t, n, some ⟨sig, key, some ⟨ct, cs, some ⟨some r, qsig, some a, some p⟩⟩⟩, extra⟩) = .ok ()) :
    quoteToAbiBytes (some ⟨some h, some t, n, some ⟨sig, key, some ⟨ct, cs, some ⟨some r, qsig, some a, some p⟩⟩⟩, extra⟩)
      = .ok (hdrBytes h ++ bodyBytesFit t ++ toLE32 n ++ signedBytes sig key ct cs r qsig a p ++ extra) := by
  obtain ⟨hh, ht, hsd⟩ := checkQuoteV4_ok_iff.mp hc
  obtain ⟨_, _, hcd⟩ := checkSignedData_ok_iff.mp hsd
  obtain ⟨_, hqc⟩ := checkCertificationData_ok_iff.mp hcd
  obtain ⟨hr, _, ha, hp⟩ := checkQeReportCertData_ok_iff.mp hqc
  dsimp only at hh ht hsd hcd hqc hr ha hp
  simp only [quoteToAbiBytes, headerToAbiBytes, tdQuoteBodyToAbiBytes, signedDataToAbiBytes, certificationDataToAbiBytes,
    qeReportCertDataToAbiBytes, enclaveReportToAbiBytes, qeAuthDataToAbiBytes, pckChainToAbiBytes, bind_eq hc, bind_eq hh,
    bind_eq ht, bind_eq hsd, bind_eq hcd, bind_eq hqc, bind_eq hr, bind_eq ha, bind_eq hp, pure_eq_ok, ok_bind, gen_const]
  rfl


theorem sizes_arith {n cs as ps adl cl : Nat} (h2 : 590 + as ≤ n) (h3 : cs = n - 134) (h4 : ps = n - (590 + as))
    (has : as = adl) (hps : ps = cl) : cs = 384 + 64 + 2 + adl + 6 + cl ∧ n = 64 + 64 + 6 + cs := by
  omega

/-- a byte string laid out as a quote whose nested size fields are `n`, `cs`, `as`, `ps`: if it follows the v4 layout then
    the size fields say what the lengths are -/
theorem sizes_of_layout {hb tb sig key rb qsig ad chain extra : Bytes} {n ct cs as pt ps : Nat}
    (l1 : hb.length = 48) (l2 : tb.length = 584) (l3 : sig.length = 64) (l4 : key.length = 64) (l5 : rb.length = 384)
    (l6 : qsig.length = 64) (has : as = ad.length) (hps : ps = chain.length)
    (r1 : n < 2 ^ 32) (r2 : cs < 2 ^ 32) (r3 : as < 65536) (r4 : ps < 2 ^ 32)
    (hl : V4Layout (hb ++ (tb ++ (toLE32 n ++ (sig ++ (key ++ (toLE16 ct ++ (toLE32 cs ++ (rb ++ (qsig ++ (toLE16 as ++ (ad ++
      (toLE16 pt ++ (toLE32 ps ++ (chain ++ extra))))))))))))))) :
    cs = 384 + 64 + 2 + ad.length + 6 + chain.length ∧ n = 64 + 64 + 6 + cs := by
  generalize hbd : (hb ++ (tb ++ (toLE32 n ++ (sig ++ (key ++ (toLE16 ct ++ (toLE32 cs ++ (rb ++ (qsig ++ (toLE16 as ++ (ad ++
      (toLE16 pt ++ (toLE32 ps ++ (chain ++ extra)))))))))))))) = b at hl
  have e1 : sub b 632 636 = toLE32 n := by
    have : b = (hb ++ tb) ++ (toLE32 n ++ (sig ++ (key ++ (toLE16 ct ++ (toLE32 cs ++ (rb ++ (qsig ++ (toLE16 as ++ (ad ++
        (toLE16 pt ++ (toLE32 ps ++ (chain ++ extra)))))))))))) := by
      rw [← hbd]; simp only [List.append_assoc]
    rw [this]
    exact sub_append_mid _ _ _ _ _ (by simp only [List.length_append, l1, l2]) (by simp only [toLE32_len])
  have e2 : sub b 766 770 = toLE32 cs := by
    have : b = (hb ++ tb ++ toLE32 n ++ sig ++ key ++ toLE16 ct) ++ (toLE32 cs ++ (rb ++ (qsig ++ (toLE16 as ++ (ad ++
        (toLE16 pt ++ (toLE32 ps ++ (chain ++ extra)))))))) := by
      rw [← hbd]; simp only [List.append_assoc]
    rw [this]
    exact sub_append_mid _ _ _ _ _ (by simp only [List.length_append, l1, l2, l3, l4, toLE16_len, toLE32_len])
      (by simp only [toLE32_len])
  have e3 : sub b 1218 1220 = toLE16 as := by
    have : b = (hb ++ tb ++ toLE32 n ++ sig ++ key ++ toLE16 ct ++ toLE32 cs ++ rb ++ qsig) ++ (toLE16 as ++ (ad ++
        (toLE16 pt ++ (toLE32 ps ++ (chain ++ extra))))) := by
      rw [← hbd]; simp only [List.append_assoc]
    rw [this]
    exact sub_append_mid _ _ _ _ _ (by simp only [List.length_append, l1, l2, l3, l4, l5, l6, toLE16_len, toLE32_len])
      (by simp only [toLE16_len])
  have e4 : sub b (1222 + as) (1226 + as) = toLE32 ps := by
    have : b = (hb ++ tb ++ toLE32 n ++ sig ++ key ++ toLE16 ct ++ toLE32 cs ++ rb ++ qsig ++ toLE16 as ++ ad ++ toLE16 pt) ++
        (toLE32 ps ++ (chain ++ extra)) := by
      rw [← hbd]; simp only [List.append_assoc]
    rw [this]
    exact sub_append_mid _ _ _ _ _
      (by simp only [List.length_append, l1, l2, l3, l4, l5, l6, toLE16_len, toLE32_len, ← has]; omega)
      (by simp only [toLE32_len]; omega)
  obtain ⟨h1, h2, h3, h4⟩ := v4Layout_abs hl
  simp only [sdSizeOf, authSizeOf] at h1 h2 h3 h4
  rw [e1, le32_toLE32 _ r1] at h1 h2 h3 h4
  rw [e3, le16_toLE16 _ r3] at h2 h4
  rw [e2, le32_toLE32 _ r2] at h3
  rw [e4, le32_toLE32 _ r4] at h4
  exact sizes_arith h2 h3 h4 has hps

/-- inconsistent sizes are never mis-parsed: if what the serialiser wrote for a checked, in-range message follows the
    v4 layout, the message's size fields were consistent -/
theorem sizeConsistent_of_layout {q : QuoteV4} {b : Bytes} (hc : checkQuoteV4 (some q) = .ok ()) (hr : InRange q)
    (hb : quoteToAbiBytes (some q) = .ok b) (hl : V4Layout b) : SizeConsistent q := by
  have hp := allPresent_of_check hc
  obtain ⟨r1, r2, r3, r4⟩ := hr
  rw [allPresent_shape hp] at hc hb
  rw [quote_ser_eq hc] at hb
  cases hb
  obtain ⟨hh, ht, hsd⟩ := checkQuoteV4_ok_iff.mp hc
  obtain ⟨l3, l4, hcd⟩ := checkSignedData_ok_iff.mp hsd
  obtain ⟨_, hqc⟩ := checkCertificationData_ok_iff.mp hcd
  obtain ⟨hrep, l6, ha, hpk⟩ := checkQeReportCertData_ok_iff.mp hqc
  dsimp only at hh ht hsd l3 l4 hcd hqc hrep l6 ha hpk
  obtain ⟨a1, a2⟩ := checkQeAuthData_ok_iff.mp ha
  obtain ⟨_, p2⟩ := checkPckChain_ok_iff.mp hpk
  unfold signedBytes certBytes qeCertBytes authBytes pckBytes at hl
  simp only [List.append_assoc] at hl
  obtain ⟨s1, s2⟩ := sizes_of_layout (header_back hh).2.2 (bodyBytesFit_len ht) l3 l4 (report_back hrep r3).2.2 l6 a2 p2
    r1 r2 a1 r4 hl
  exact ⟨s1, s2⟩

end Tdx.Abi
