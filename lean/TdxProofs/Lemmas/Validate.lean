/- helper lemmas for validate.go's model -/
import TdxModel.Validate
import TdxProofs.Lemmas.Basic
import TdxProofs.Lemmas.AbiNoPanic
import TdxProofs.Generated.ConstsSimp

namespace Tdx.Validate
open Tdx Tdx.Gen Tdx.Abi

theorem combine_ok_iff (rs : List (Outcome Unit)) : combine rs = .ok () ↔ ∀ r ∈ rs, r = .ok () := by
  unfold combine
  constructor
  · intro h r hr
    split at h; · cases h
    split at h; · cases h
    rename_i h1 h2
    simp only [List.any_eq_true, not_exists, not_and] at h1 h2
    have a := h1 r hr; have b := h2 r hr
    cases r <;> simp_all [Outcome.isPanic, Outcome.isErr]
  · intro h
    have h1 : rs.any (·.isPanic) = false := by
      rw [List.any_eq_false]; intro r hr; rw [h r hr]; simp [Outcome.isPanic]
    have h2 : rs.any (·.isErr) = false := by
      rw [List.any_eq_false]; intro r hr; rw [h r hr]; simp [Outcome.isErr]
    simp [h1, h2]

theorem combine_ne_panic (rs : List (Outcome Unit)) (h : ∀ r ∈ rs, r ≠ .panic) : combine rs ≠ .panic := by
  unfold combine
  have h1 : rs.any (·.isPanic) = false := by
    rw [List.any_eq_false]; intro r hr
    have := h r hr
    cases r <;> simp_all [Outcome.isPanic]
  rw [h1]
  simp only [Bool.false_eq_true, if_false]
  split <;> simp

theorem byteCheck_ok_iff (size : Nat) (given req : Bytes) :
    byteCheck size given req = .ok () ↔ req = [] ∨ (req.length = size ∧ req = given) := by
  unfold byteCheck
  by_cases h0 : req.length = 0
  · have : req = [] := List.eq_nil_of_length_eq_zero h0
    simp [this]
  · have hne : req ≠ [] := fun e => h0 (by simp [e])
    have hb : (req.length == 0) = false := by simpa using h0
    by_cases h1 : req.length = size
    · have hb1 : (req.length != size) = false := by simp [h1]
      by_cases h2 : req = given
      · have hb2 : (req != given) = false := by simp [h2]
        simp only [hb, hb1, hb2, Bool.false_eq_true, if_false, true_iff]
        exact Or.inr ⟨h1, h2⟩
      · have hb2 : (req != given) = true := by simpa using h2
        simp only [hb, hb1, hb2, Bool.false_eq_true, if_false, if_true]
        simp [hne, h2]
    · have hb1 : (req.length != size) = true := by simpa using h1
      simp only [hb, hb1, Bool.false_eq_true, if_false, if_true]
      simp [hne, h1]

@[simp] theorem byteCheck_ne_panic (size : Nat) (given req : Bytes) : byteCheck size given req ≠ .panic := by
  unfold byteCheck; split; · simp
  split; · simp
  split <;> simp

theorem byteCheck_isOk (size : Nat) (given req : Bytes) :
    (byteCheck size given req).isOk = true ↔ req = [] ∨ (req.length = size ∧ req = given) := by
  rw [← byteCheck_ok_iff]
  cases h : byteCheck size given req <;> simp [Outcome.isOk]

/-- the RTMR loop from position `i`: every remaining required entry is empty or equals the given one -/
theorem rtmrLoop_ok_iff (size : Nat) (given : List Bytes) (i : Nat) (req : List Bytes) (hlen : i + req.length ≤ given.length) :
    byteCheckRtmrLoop size given i req = .ok () ↔
      ∀ j (hj : j < req.length), req[j] = [] ∨ (req[j].length = size ∧ given[i + j]? = some req[j]) := by
  induction req generalizing i with
  | nil => simp [byteCheckRtmrLoop]
  | cons bs rest ih =>
    simp only [List.length_cons] at hlen
    have hi : i < given.length := by omega
    unfold byteCheckRtmrLoop
    rw [List.getElem?_eq_getElem hi]
    simp only
    constructor
    · intro h
      obtain ⟨u, h1, h2⟩ := bind_ok h
      have a := (byteCheck_ok_iff size given[i] bs).mp h1
      have b := (ih (i + 1) (by omega)).mp h2
      intro j hj
      cases j with
      | zero =>
        simp only [List.getElem_cons_zero, Nat.add_zero, List.getElem?_eq_getElem hi]
        rcases a with a | ⟨a1, a2⟩
        · exact Or.inl a
        · exact Or.inr ⟨a1, by rw [a2]⟩
      | succ k =>
        have := b k (by simpa using hj)
        simpa [Nat.add_assoc, Nat.add_comm 1 k] using this
    · intro h
      have h0 := h 0 (by simp)
      simp only [List.getElem_cons_zero, Nat.add_zero, List.getElem?_eq_getElem hi] at h0
      have a : byteCheck size given[i] bs = .ok () := by
        rw [byteCheck_ok_iff]
        rcases h0 with h0 | ⟨h1, h2⟩
        · exact Or.inl h0
        · exact Or.inr ⟨h1, by simpa using h2.symm⟩
      rw [bind_eq a]
      rw [ih (i + 1) (by omega)]
      intro j hj
      have := h (j + 1) (by simpa using hj)
      simpa [Nat.add_assoc, Nat.add_comm 1 j] using this

theorem rtmrLoop_ne_panic (size : Nat) (given : List Bytes) (i : Nat) (req : List Bytes) (hlen : i + req.length ≤ given.length) :
    byteCheckRtmrLoop size given i req ≠ .panic := by
  induction req generalizing i with
  | nil => simp [byteCheckRtmrLoop]
  | cons bs rest ih =>
    simp only [List.length_cons] at hlen
    have hi : i < given.length := by omega
    unfold byteCheckRtmrLoop
    rw [List.getElem?_eq_getElem hi]
    exact bind_ne_panic (byteCheck_ne_panic _ _ _) fun _ _ => ih (i + 1) (by omega)

theorem byteCheckRtmr_ok_iff (size : Nat) (given req : List Bytes) (hg : given.length = 4) :
    byteCheckRtmr size given req = .ok () ↔
      req = [] ∨ (req.length = 4 ∧ ∀ j (hj : j < req.length), req[j] = [] ∨ (req[j].length = size ∧ given[j]? = some req[j])) := by
  unfold byteCheckRtmr
  by_cases h0 : req.length = 0
  · have : req = [] := List.eq_nil_of_length_eq_zero h0
    simp [this]
  · have hne : req ≠ [] := fun e => h0 (by simp [e])
    by_cases h1 : req.length = 4
    · have := rtmrLoop_ok_iff size given 0 req (by omega)
      simp only [Nat.zero_add] at this
      simp [h0, h1, hne, this]
    · simp [h0, h1, hne]

theorem byteCheckRtmr_ne_panic (size : Nat) (given req : List Bytes) (hg : given.length = 4) :
    byteCheckRtmr size given req ≠ .panic := by
  unfold byteCheckRtmr
  split; · simp
  split; · simp
  rename_i h0 h1
  simp only [gen_const, bne_iff_ne, ne_eq, Decidable.not_not] at h1
  exact rtmrLoop_ne_panic size given 0 req (by omega)

theorem byteCheckAny_ok_iff (size : Nat) (given : Bytes) (allowed : List Bytes) :
    byteCheckAny size given allowed = .ok () ↔
      allowed = [] ∨ ∃ e ∈ allowed, e = [] ∨ (e.length = size ∧ e = given) := by
  unfold byteCheckAny
  by_cases h0 : allowed.length = 0
  · have : allowed = [] := List.eq_nil_of_length_eq_zero h0
    simp [this]
  · have hne : allowed ≠ [] := fun e => h0 (by simp [e])
    by_cases h1 : allowed.any (fun bs => (byteCheck size given bs).isOk) = true
    · simp only [h0, h1]
      simp only [List.any_eq_true, byteCheck_isOk] at h1
      simp [hne, h1]
    · simp only [h0, h1]
      simp only [List.any_eq_true, byteCheck_isOk] at h1
      simp [hne, h1]

@[simp] theorem byteCheckAny_ne_panic (size : Nat) (given : Bytes) (allowed : List Bytes) :
    byteCheckAny size given allowed ≠ .panic := by
  unfold byteCheckAny; split; · simp
  split <;> simp

/-- the component-wise minimum loop, from position `i` of the option -/
theorem svnLoop_spec (qs : List UInt8) (i : Nat) (opt : Bytes) (hlen : i + qs.length ≤ opt.length) :
    ∃ b, svnLoop qs i opt = .ok b ∧ (b = true ↔ ∀ j (hj : j < qs.length), opt[i + j]'(by omega) ≤ qs[j]) := by
  induction qs generalizing i with
  | nil => exact ⟨true, by simp [svnLoop]⟩
  | cons q rest ih =>
    simp only [List.length_cons] at hlen
    have hi : i < opt.length := by omega
    unfold svnLoop
    rw [List.getElem?_eq_getElem hi]
    simp only
    by_cases hlt : q < opt[i]
    · refine ⟨false, by simp [hlt], ?_⟩
      simp only [Bool.false_eq_true, false_iff]
      intro hall
      have := hall 0 (by simp)
      simp only [Nat.add_zero, List.getElem_cons_zero] at this
      exact absurd hlt (UInt8.not_lt.mpr this)
    · obtain ⟨b, hb, hspec⟩ := ih (i + 1) (by omega)
      refine ⟨b, by simp [hlt, hb], ?_⟩
      rw [hspec]
      constructor
      · intro h j hj
        cases j with
        | zero => simpa using UInt8.not_lt.mp hlt
        | succ k =>
          have := h k (by simpa using hj)
          simpa [Nat.add_assoc, Nat.add_comm 1 k] using this
      · intro h j hj
        have := h (j + 1) (by simpa using hj)
        simpa [Nat.add_assoc, Nat.add_comm 1 j] using this

theorem goLE16_of_len2 (b : Bytes) (h : b.length = 2) : goLE16 b = .ok (le16 b) := by
  match b, h with
  | [x, y], _ => simp [goLE16, le16]

theorem bv_and_eq_right_iff (x f : BitVec 64) : (x &&& f = f) ↔ ∀ i, i < 64 → f.getLsbD i = true → x.getLsbD i = true := by
  constructor
  · intro h i _ hf
    have := congrArg (·.getLsbD i) h
    simp only [BitVec.getLsbD_and, hf, Bool.and_true] at this
    exact this
  · intro h
    apply BitVec.eq_of_getLsbD_eq
    intro i hi
    simp only [BitVec.getLsbD_and]
    cases hf : f.getLsbD i
    · simp
    · simp [h i hi hf]

theorem bv_and_not_eq_zero_iff (x f : BitVec 64) : (x &&& ~~~f = 0#64) ↔ ∀ i, i < 64 → x.getLsbD i = true → f.getLsbD i = true := by
  constructor
  · intro h i hi hx
    have := congrArg (·.getLsbD i) h
    simp only [BitVec.getLsbD_and, BitVec.getLsbD_not, hx, hi, decide_true, Bool.true_and, BitVec.getLsbD_zero] at this
    simpa using this
  · intro h
    apply BitVec.eq_of_getLsbD_eq
    intro i hi
    simp only [BitVec.getLsbD_and, BitVec.getLsbD_not, hi, decide_true, Bool.true_and, BitVec.getLsbD_zero]
    cases hx : x.getLsbD i
    · simp
    · simp [h i hi hx]

theorem validateMask_ok_iff (size : Nat) (value : Bytes) (f1 f0 : BitVec 64) (hl : value.length = size) (hs : size ≠ 0) :
    validateMask size value f1 f0 = .ok () ↔
      (∀ i, i < 64 → f1.getLsbD i = true → (le64 value).getLsbD i = true) ∧
      (∀ i, i < 64 → (le64 value).getLsbD i = true → f0.getLsbD i = true) := by
  unfold validateMask
  have h0 : (value.length == 0) = false := by simp [hl, hs]
  have h1 : (value.length != size) = false := by simp [hl]
  simp only [h0, h1, Bool.false_eq_true, if_false]
  rw [← bv_and_eq_right_iff, ← bv_and_not_eq_zero_iff]
  by_cases a : le64 value &&& f1 = f1
  · by_cases b : le64 value &&& ~~~f0 = 0#64
    · simp [a, b]
    · simp [a, b]
  · simp [a]

@[simp] theorem validateMask_ne_panic (size : Nat) (value : Bytes) (f1 f0 : BitVec 64) :
    validateMask size value f1 f0 ≠ .panic := by
  unfold validateMask
  split; · simp
  split; · simp
  dsimp only
  split; · simp
  split <;> simp

theorem nblt_iff (a b : Nat) : (!(Nat.blt a b)) = true ↔ b ≤ a := by
  cases h : Nat.blt a b
  · have : ¬ a < b := by rw [← Nat.blt_eq]; simp [h]
    simp; omega
  · have : a < b := by rw [← Nat.blt_eq]; exact h
    simp; omega

theorem tail_ok_iff (qe pce mq mp : Nat) (e1 e2 : String) :
    (guard' (!(Nat.blt qe mq)) e1 >>= fun _ => guard' (!(Nat.blt pce mp)) e2) = .ok () ↔ mq ≤ qe ∧ mp ≤ pce := by
  by_cases a : mq ≤ qe
  · rw [guard_true ((nblt_iff _ _).mpr a), Abi.guard_eq_ok_iff, nblt_iff]
    simp [a]
  · have : (!(Nat.blt qe mq)) = false := by
      cases h : (!(Nat.blt qe mq)); rfl; exact absurd ((nblt_iff _ _).mp h) a
    rw [guard_false this]
    simp [a]

/-! what a successful structural check gives -/

theorem checkHeader_ok {o : Option Header} (h : checkHeader o = .ok ()) :
    ∃ hd, o = some hd ∧ hd.qeSvn.length = 2 ∧ hd.pceSvn.length = 2 ∧ hd.qeVendorId.length = 16 ∧ hd.userData.length = 20 ∧
      hd.version = 4 ∧ hd.attestationKeyType = 2 ∧ hd.teeType = 0x81 := by
  cases o with
  | none => simp [checkHeader] at h
  | some hd =>
    unfold checkHeader at h
    simp only [gen_const] at h
    obtain ⟨_, h⟩ := guard_ok h
    obtain ⟨v, h⟩ := guard_ok h
    obtain ⟨_, h⟩ := guard_ok h
    obtain ⟨k, h⟩ := guard_ok h
    obtain ⟨t, h⟩ := guard_ok h
    obtain ⟨a, h⟩ := guard_ok h
    obtain ⟨b, h⟩ := guard_ok h
    obtain ⟨c, h⟩ := guard_ok h
    have d := guard_unit_ok h
    simp only [beq_iff_eq] at v k t a b c d
    exact ⟨hd, rfl, a, b, c, d, v, k, t⟩

theorem checkTDQuoteBody_ok {o : Option TdQuoteBody} (h : checkTDQuoteBody o = .ok ()) :
    ∃ t, o = some t ∧ t.teeTcbSvn.length = 16 ∧ t.mrSeam.length = 48 ∧ t.mrSignerSeam.length = 48 ∧
      t.seamAttributes.length = 8 ∧ t.tdAttributes.length = 8 ∧ t.xfam.length = 8 ∧ t.mrTd.length = 48 ∧
      t.mrConfigId.length = 48 ∧ t.mrOwner.length = 48 ∧ t.mrOwnerConfig.length = 48 ∧ t.rtmrs.length = 4 ∧
      (∀ r ∈ t.rtmrs, r.length = 48) := by
  cases o with
  | none => simp [checkTDQuoteBody] at h
  | some t =>
    unfold checkTDQuoteBody lenIs at h
    simp only [gen_const] at h
    obtain ⟨a1, h⟩ := guard_ok h
    obtain ⟨a2, h⟩ := guard_ok h
    obtain ⟨a3, h⟩ := guard_ok h
    obtain ⟨a4, h⟩ := guard_ok h
    obtain ⟨a5, h⟩ := guard_ok h
    obtain ⟨a6, h⟩ := guard_ok h
    obtain ⟨a7, h⟩ := guard_ok h
    obtain ⟨a8, h⟩ := guard_ok h
    obtain ⟨a9, h⟩ := guard_ok h
    obtain ⟨a10, h⟩ := guard_ok h
    obtain ⟨_, h⟩ := guard_ok h
    obtain ⟨a11, h⟩ := guard_ok h
    have a12 := guard_unit_ok h
    simp only [beq_iff_eq] at a1 a2 a3 a4 a5 a6 a7 a8 a9 a10 a11
    simp only [gen_const, List.all_eq_true, beq_iff_eq] at a12
    exact ⟨t, rfl, a1, a2, a3, a4, a5, a6, a7, a8, a9, a10, a11, a12⟩

theorem checkQuoteV4_ok {q : QuoteV4} (h : checkQuoteV4 (some q) = .ok ()) :
    checkHeader q.header = .ok () ∧ checkTDQuoteBody q.tdQuoteBody = .ok () ∧ checkSignedData q.signedData = .ok () := by
  unfold checkQuoteV4 at h
  obtain ⟨u1, h1, h⟩ := bind_ok h
  obtain ⟨u2, h2, h⟩ := bind_ok h
  exact ⟨h1, h2, h⟩

end Tdx.Validate
