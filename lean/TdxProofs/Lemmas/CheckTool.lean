/-
  Helper lemmas for C19: the step-by-step `tool` equals the decision table `exitCode`.
-/
import TdxModel.CheckTool

namespace Tdx.Lemmas.CheckTool
open Tdx Tdx.CheckTool

theorem ptrsOf_fixed (cfg : ConfigArg) (h : configReadable cfg = true) :
    ptrsOf fixed cfg = some { header := some (baseOf cfg).header, body := some (baseOf cfg).body, rot := (baseOf cfg).rot } := by
  cases cfg with
  | absent => rfl
  | unreadable => simp [configReadable] at h
  | file c => rfl

theorem ptrsOf_fixed_unreadable : ptrsOf fixed .unreadable = none := rfl

/-- repaired library + repaired tool: the error of a failed download is recognised, no other is -/
theorem clarify_fixed (c : VCause) : clarify fixed.crlTarget (fixed.libError c) = c.isDownload := by
  cases c <;> rfl

theorem restOk_split (f : Flags) :
    f.restOk = ((f.checkCrl.ok && f.getCollateral.ok && f.trustedRoots.ok) &&
                (f.minimumQeSvn.ok && f.minimumPceSvn.ok && f.rtmrs.ok)) := by
  unfold Flags.restOk
  cases f.checkCrl.ok <;> cases f.getCollateral.ok <;> cases f.trustedRoots.ok <;> rfl

theorem codes : exitTool = 1 ∧ exitVerify = 2 ∧ exitNetwork = 3 ∧ exitPolicy = 4 := ⟨rfl, rfl, rfl, rfl⟩

end Tdx.Lemmas.CheckTool
