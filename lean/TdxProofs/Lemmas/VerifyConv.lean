/- Converse reading lemmas: the declarative stage facts imply that every entry of the check lists holds
   (used for C11 — honest quotes are accepted — and for C12 — monotonicity). -/
import TdxProofs.Lemmas.Verify

namespace Tdx.Verify
open Tdx Tdx.Gen Tdx.Abi

theorem validateCRL_of_ok {crl : CrlF} {c : CertF} (h : CrlOk crl c) : ∀ x ∈ validateCRL crl c, x.1 = true :=
  (validateCRL_all crl c).mpr h

theorem chainChecks_of_ok (w : World) (ch : Chain) (o : Opts) (T : TimeSet) (col : Option Collateral)
    (h : ChainOk w ch o T col) : ∀ x ∈ chainChecks w ch o T col, x.1 = true := by
  unfold chainChecks
  intro x hx
  simp only [List.mem_append, List.mem_cons, List.not_mem_nil, or_false] at hx
  rcases hx with ((((hx | hx) | hx) | hx) | hx) | hx
  · exact (validateCertificate_all _ _ _).mpr h.root x hx
  · exact (validateCertificate_all _ _ _).mpr h.inter x hx
  · exact (validateCertificate_all _ _ _).mpr h.leaf x hx
  · subst hx; exact h.anchored
  · by_cases hcr : o.checkRevocations = true
    · obtain ⟨hg, ⟨c, rootCrl, cs, crt, pckCrl, hcol, hr, hp, a, b, c1, c2, c3⟩⟩ := h.revocation hcr
      subst hcol
      simp only [hcr, hg, ↓reduceIte, Option.bind_some, hr, hp, List.mem_append, List.mem_cons, List.not_mem_nil, or_false] at hx
      rcases hx with (hx | hx) | hx | hx | hx
      · exact validateCRL_of_ok a x hx
      · exact validateCRL_of_ok b x hx
      · subst hx; simpa using c1
      · subst hx; simpa using c2
      · subst hx; simpa using c3
    · have hcr' : o.checkRevocations = false := by simpa using hcr
      simp [hcr'] at hx
  · rcases hx with hx | hx | hx
    · subst hx; simpa using h.rootInDate
    · subst hx; simpa using h.interInDate
    · subst hx; simpa using h.leafInDate

theorem responseChecks_of_ok (C : Crypto) (w : World) (o : Opts) (rootI signerI : Nat) (raw : Bytes) (sigHex : String)
    (rootCrl : Option CrlF) (t : Int) (h : ResponseOk C w o rootI signerI raw sigHex rootCrl t) :
    ∀ x ∈ responseChecks C w o rootI signerI raw sigHex rootCrl t, x.1 = true := by
  unfold responseChecks
  intro x hx
  obtain ⟨sig, hs, hv⟩ := h.signature
  have hun : (unhex sigHex).isSome = true := by
    unfold isHex128 at hs
    cases hu : unhex sigHex with
    | none => rw [hu] at hs; cases hs
    | some b => rfl
  simp only [List.mem_append, List.mem_cons, List.not_mem_nil, or_false] at hx
  rcases hx with ((hx | hx) | hx) | hx
  · exact (validateCertificate_all _ _ _).mpr h.root x hx
  · exact (validateCertificate_all _ _ _).mpr h.signer x hx
  · rcases hx with hx | hx | hx | hx
    · subst hx; exact h.anchored
    · subst hx; exact hun
    · subst hx; simp [hs]
    · subst hx; simpa [hs] using hv
  · by_cases hcr : o.checkRevocations = true
    · obtain ⟨hg, crl, hc, a, b⟩ := h.revocation hcr
      subst hc
      simp only [hcr, hg, ↓reduceIte, List.mem_append, List.mem_cons, List.not_mem_nil, or_false] at hx
      rcases hx with hx | hx
      · exact validateCRL_of_ok a x hx
      · subst hx; simpa using b
    · have hcr' : o.checkRevocations = false := by simpa using hcr
      simp [hcr'] at hx

theorem tcbInfoChecks_of_ok (C : Crypto) (w : World) (o : Opts) (T : TimeSet) (c : Collateral)
    (h : TcbInfoOk C w o T c) : ∀ x ∈ tcbInfoChecks C w o T c, x.1 = true := by
  unfold tcbInfoChecks
  intro x hx
  simp only [List.mem_append, List.mem_cons, List.not_mem_nil, or_false] at hx
  rcases hx with (hx | hx | hx) | hx
  · subst hx; simpa using h.id
  · subst hx; simpa using h.version
  · subst hx; simpa using h.levels
  · exact responseChecks_of_ok _ _ _ _ _ _ _ _ _ h.response x hx

theorem qeIdentityChecks_of_ok (C : Crypto) (w : World) (o : Opts) (T : TimeSet) (c : Collateral)
    (h : QeIdentityOk C w o T c) : ∀ x ∈ qeIdentityChecks C w o T c, x.1 = true := by
  unfold qeIdentityChecks
  intro x hx
  simp only [List.mem_append, List.mem_cons, List.not_mem_nil, or_false] at hx
  rcases hx with (hx | hx | hx) | hx
  · subst hx; simpa using h.id
  · subst hx; simpa using h.version
  · subst hx; simpa using h.levels
  · exact responseChecks_of_ok _ _ _ _ _ _ _ _ _ h.response x hx

theorem collateralChecks_of_ok (w : World) (o : Opts) (T : TimeSet) (c : Collateral)
    (hz : c.tcbZero = false ∧ c.qeZero = false) (h : CollateralInDate w o T c) :
    ∀ x ∈ collateralChecks w o T (some c), x.1 = true := by
  unfold collateralChecks
  intro x hx
  simp only [List.mem_append, List.mem_cons, List.not_mem_nil, or_false] at hx
  rcases hx with (((hx | hx) | hx) | hx) | hx
  · subst hx; simp [hz.1]
  · subst hx; simp [hz.2]
  · by_cases hcr : o.checkRevocations = true
    · obtain ⟨rc, cs, crt, pckCrl, hr, hp, _⟩ := h.crls hcr
      simp only [hcr, ↓reduceIte, List.mem_cons, List.not_mem_nil, or_false] at hx
      rcases hx with hx | hx <;> subst hx <;> simp [hr, hp]
    · have hcr' : o.checkRevocations = false := by simpa using hcr
      simp [hcr'] at hx
  · rcases hx with hx | hx | hx | hx | hx | hx <;> subst hx
    · simpa using h.tcb
    · simpa using h.qe
    · simpa using h.tcbSigner
    · simpa using h.tcbRoot
    · simpa using h.qeRoot
    · simpa using h.qeSigner
  · by_cases hcr : o.checkRevocations = true
    · obtain ⟨rc, cs, crt, pckCrl, hr, hp, a, b, c', d⟩ := h.crls hcr
      simp only [hcr, ↓reduceIte, hr, hp, List.mem_cons, List.not_mem_nil, or_false] at hx
      rcases hx with hx | hx | hx | hx <;> subst hx
      · simpa using a
      · simpa using b
      · simpa using c'
      · simpa using d
    · have hcr' : o.checkRevocations = false := by simpa using hcr
      simp [hcr'] at hx

end Tdx.Verify
