/- verify.TdxQuote never panics (C10): stage by stage. -/
import TdxModel.Verify
import TdxProofs.Lemmas.Verify
import TdxProofs.Lemmas.Tcb
import TdxProofs.Lemmas.Validate
import TdxProofs.Lemmas.PckExt
import TdxProofs.Lemmas.AbiLayout

namespace Tdx.Verify
open Tdx Tdx.Gen Tdx.Abi

theorem extractChain_np (pem : Option PemFacts) : extractChain pem ≠ .panic := by
  unfold extractChain
  repeat' split
  all_goals simp

theorem headerToIssuerChain_np (h : HdrF) : headerToIssuerChain h ≠ .panic := by
  unfold headerToIssuerChain
  repeat' split
  all_goals simp

theorem bodyValues_np {Doc : Type} (fx : Fixes) (b : BodyF Doc) : bodyValues fx b ≠ .panic := by
  unfold bodyValues
  repeat' split
  all_goals simp

theorem obtainBase_np (fx : Fixes) (w : World) (f : String) : (obtainBase fx w f).2 ≠ .panic := by
  unfold obtainBase
  simp only
  cases w.fetchTcb (tcbInfoURL f) with
  | fail => simp
  | resp h1 b1 =>
    simp only
    cases hh : headerToIssuerChain h1 with
    | err e => simp
    | panic => exact absurd hh (headerToIssuerChain_np h1)
    | ok p =>
      obtain ⟨ts, tr⟩ := p
      simp only
      cases hb : bodyValues fx b1 with
      | err e => simp
      | panic => exact absurd hb (bodyValues_np fx b1)
      | ok v =>
        obtain ⟨a, b, c, d⟩ := v
        simp only
        cases w.fetchQe qeIdentityURL with
        | fail => simp
        | resp h2 b2 =>
          simp only
          cases hh2 : headerToIssuerChain h2 with
          | err e => simp
          | panic => exact absurd hh2 (headerToIssuerChain_np h2)
          | ok p2 =>
            obtain ⟨qs, qr⟩ := p2
            simp only
            cases hb2 : bodyValues fx b2 with
            | err e => simp
            | panic => exact absurd hb2 (bodyValues_np fx b2)
            | ok v2 => simp

theorem obtainCrls_np (w : World) (ca : String) (base : Collateral) : (obtainCrls w ca base).2 ≠ .panic := by
  unfold obtainCrls
  simp only
  cases w.fetchPckCrl (pckCrlURL ca) with
  | fail => simp
  | resp h3 b3 =>
    simp only
    cases hh : headerToIssuerChain h3 with
    | err e => simp
    | panic => exact absurd hh (headerToIssuerChain_np h3)
    | ok p =>
      obtain ⟨cs, crt⟩ := p
      simp only
      cases b3 with
      | none => simp
      | some c =>
        simp only
        split
        · simp
        · cases (getRootCrl w (cert w base.qeRoot).crlDPs).2 <;> simp

theorem obtainCollateral_np (fx : Fixes) (w : World) (f ca : String) (cr : Bool) : (obtainCollateral fx w f ca cr).2 ≠ .panic := by
  unfold obtainCollateral
  cases hb : (obtainBase fx w f).2 with
  | err e => simp
  | panic => exact absurd hb (obtainBase_np fx w f)
  | ok base =>
    simp only
    split
    · simp
    · exact obtainCrls_np w ca base

theorem extractCa_np (c : CertF) : extractCa c ≠ .panic := by
  unfold extractCa
  repeat' split
  all_goals simp

theorem fetchStage_np (fx : Fixes) (w : World) (o : Opts) (ch : Chain) (ext : PckExt.PckExtensions) :
    (fetchStage fx w o ch ext).2 ≠ .panic := by
  unfold fetchStage
  split
  · cases hc : extractCa (cert w ch.leaf) with
    | err e => simp
    | panic => exact absurd hc (extractCa_np _)
    | ok ca =>
      simp only
      cases ho : (obtainCollateral fx w ext.fmspc ca o.checkRevocations).2 with
      | err e => simp
      | panic => exact absurd ho (obtainCollateral_np fx w ext.fmspc ca o.checkRevocations)
      | ok c => simp
  · simp

theorem tcbStatusCheck_np (fx : Fixes) (doc : TcbInfoDoc) (tee : Bytes) (pcesvn : Nat) (comps : Bytes) (h2 : 2 ≤ tee.length) :
    tcbStatusCheck fx doc tee pcesvn comps ≠ .panic := by
  unfold tcbStatusCheck
  have e0 : tee[0]? = some (tee[0]'(by omega)) := List.getElem?_eq_getElem (by omega)
  have e1 : tee[1]? = some (tee[1]'(by omega)) := List.getElem?_eq_getElem (by omega)
  rcases getMatchingTcbLevel_spec comps pcesvn tee doc.levels h2 with ⟨p, hp, _⟩ | ⟨hn, _⟩
  · rw [hp]
    simp only [e0, e1]
    repeat' split
    all_goals simp
  · rw [hn]; simp

theorem tdBodyCheck_np (fx : Fixes) (doc : TcbInfoDoc) (t : TdQuoteBody) (ext : PckExt.PckExtensions) (h2 : 2 ≤ t.teeTcbSvn.length) :
    tdBodyCheck fx doc t ext ≠ .panic := by
  unfold tdBodyCheck
  exact bind_ne_panic (runChecks_ne_panic _) fun _ _ => tcbStatusCheck_np fx doc _ _ _ h2

theorem qeReportCheck_np (doc : QeIdDoc) (r : EnclaveReport) : qeReportCheck doc r ≠ .panic := by
  unfold qeReportCheck qeStatusCheck
  refine bind_ne_panic (runChecks_ne_panic _) fun _ _ => ?_
  repeat' split
  all_goals simp

theorem signedMessage_np (q : QuoteV4) : signedMessage q ≠ .panic := by
  unfold signedMessage
  simp [bind_ne_panic_iff]

/-- the three links never crash as long as the hash has SHA-256's output size -/
theorem verifyQuoteLinks_np (C : Crypto) (hsha : ∀ b, (C.sha256 b).length = 32) (q : QuoteV4) (leaf : Nat) :
    verifyQuoteLinks C q leaf ≠ .panic := by
  unfold verifyQuoteLinks
  refine bind_ne_panic (runChecks_ne_panic _) fun _ _ => ?_
  refine bind_ne_panic (signedMessage_np q) fun msg _ => ?_
  refine bind_ne_panic (runChecks_ne_panic _) fun _ _ => ?_
  refine bind_ne_panic (enclaveReportToAbiBytes_np _) fun rep hrep => ?_
  refine bind_ne_panic (runChecks_ne_panic _) fun _ _ => ?_
  -- the report serialised, so it passed checkQeReport: its report data are 64 bytes
  have hlen : (((qeCertData q).getD default).qeReport.getD default).reportData.length = 64 := by
    unfold enclaveReportToAbiBytes at hrep
    cases hr : ((qeCertData q).getD default).qeReport with
    | none => rw [hr] at hrep; cases hrep
    | some r =>
      rw [hr] at hrep
      obtain ⟨u, hck, _⟩ := bind_ok hrep
      simp only [Option.getD_some]
      exact ((checkQeReport_ok_iff (u := u)).mp hck).2.2.2.2.2.2.2.2.2.2
  simp only [hsha, hlen]
  split
  · omega
  · exact runChecks_ne_panic _

theorem tcbStage_np (fx : Fixes) (q : QuoteV4) (ext : PckExt.PckExtensions) (col : Option Collateral)
    (h2 : 2 ≤ (q.tdQuoteBody.getD default).teeTcbSvn.length) : tcbStage fx q ext col ≠ .panic := by
  unfold tcbStage
  cases col with
  | none => simp
  | some c => exact bind_ne_panic (tdBodyCheck_np fx c.tcb _ ext h2) fun _ _ => qeReportCheck_np _ _

theorem collateralStage_np (C : Crypto) (w : World) (o : Opts) (T : TimeSet) (col : Option Collateral) :
    collateralStage C w o T col ≠ .panic := by
  unfold collateralStage
  split
  · cases col with
    | none => simp
    | some c => exact runChecks_ne_panic _
  · simp

theorem verifyEvidence_np (fx : Fixes) (C : Crypto) (hsha : ∀ b, (C.sha256 b).length = 32) (w : World) (q : QuoteV4) (o : Opts)
    (T : TimeSet) (ch : Chain) (ext : PckExt.PckExtensions) (col : Option Collateral)
    (h2 : 2 ≤ (q.tdQuoteBody.getD default).teeTcbSvn.length) : verifyEvidence fx C w q o T ch ext col ≠ .panic := by
  unfold verifyEvidence
  refine bind_ne_panic (runChecks_ne_panic _) fun _ _ => ?_
  refine bind_ne_panic (collateralStage_np C w o T col) fun _ _ => ?_
  refine bind_ne_panic (verifyQuoteLinks_np C hsha q ch.leaf) fun _ _ => ?_
  exact tcbStage_np fx q ext col h2

/-- **verify.TdxQuote never panics**: for every message (absent sub-messages, fields of any length, any number of RTMRs),
    every world (arbitrary chain, collateral, CRL and issuer-chain facts) and every option value. -/
theorem tdxQuote_np (C : Crypto) (hsha : ∀ b, (C.sha256 b).length = 32) (w : World) (q : Option QuoteV4) (o : Opts) :
    (tdxQuote Fixes.all C w q o).verdict ≠ .panic := by
  unfold tdxQuote
  have hf2 : (!Fixes.all.f2 && (q.bind (·.header)).isNone) = false := rfl
  simp only [hf2, Bool.false_eq_true, ↓reduceIte]
  cases q with
  | none => simp
  | some q' =>
    simp only
    cases hc : checkQuoteV4 (some q') with
    | err e => simp
    | panic => exact absurd hc (checkQuoteV4_np _)
    | ok u =>
      simp only
      cases hch : extractChain w.chainPem with
      | err e => simp
      | panic => exact absurd hch (extractChain_np _)
      | ok ch =>
        simp only
        cases hext : PckExt.pckCertificateExtensions (cert w ch.leaf).pck with
        | err e => simp
        | panic => exact absurd hext (PckExt.pckCertificateExtensions_ne_panic _)
        | ok ext =>
          simp only
          cases hf : (fetchStage Fixes.all w o ch ext).2 with
          | err e => simp
          | panic => exact absurd hf (fetchStage_np Fixes.all w o ch ext)
          | ok col =>
            simp only
            cases u
            obtain ⟨_, hT, _⟩ := Validate.checkQuoteV4_ok hc
            obtain ⟨t, et, ht1, _⟩ := Validate.checkTDQuoteBody_ok hT
            exact verifyEvidence_np Fixes.all C hsha w q' o _ ch ext col (by rw [et]; simp; omega)

end Tdx.Verify
