/- TCB level matching (C04) and QE identity (C07): from the executable loops to first-match statements. -/
import TdxModel.Verify
import TdxProofs.Lemmas.Verify

namespace Tdx.Verify
open Tdx Tdx.Gen Tdx.Abi

/-- component-wise "level not above platform" for two vectors -/
def CompsGe (plat : Bytes) (lvl : List Nat) (start : Nat) : Prop :=
  plat.length = lvl.length ∧ ∀ i (h1 : i < plat.length) (h2 : i < lvl.length), start ≤ i → lvl[i] ≤ plat[i].toNat

theorem zipWith_all_iff (plat : Bytes) (lvl : List Nat) :
    (List.zipWith (fun c l => decide (l ≤ c.toNat)) plat lvl).all id = true ↔
      ∀ i (h1 : i < plat.length) (h2 : i < lvl.length), lvl[i] ≤ plat[i].toNat := by
  rw [List.all_eq_true]
  constructor
  · intro h i h1 h2
    have hlen : i < (List.zipWith (fun c l => decide (l ≤ c.toNat)) plat lvl).length := by
      simp only [List.length_zipWith]; omega
    have := h _ (List.getElem_mem hlen)
    simpa [List.getElem_zipWith] using this
  · intro h x hx
    obtain ⟨i, hi, rfl⟩ := List.getElem_of_mem hx
    simp only [List.length_zipWith] at hi
    simp only [List.getElem_zipWith, id_eq, decide_eq_true_eq]
    exact h i (by omega) (by omega)

theorem cpuSvnGe_iff (comps : Bytes) (lvl : List Nat) : cpuSvnGe comps lvl = true ↔ CompsGe comps lvl 0 := by
  unfold cpuSvnGe CompsGe
  simp only [Bool.and_eq_true, beq_iff_eq, zipWith_all_iff, Nat.zero_le, true_imp_iff]

/-- the TDX comparison start index: 2 when TEE_TCB_SVN[1] is non-zero -/
def tdxStart (tee : Bytes) : Nat := if (tee[1]?.getD 0) > 0 then 2 else 0

theorem drop_all_iff (plat : Bytes) (lvl : List Nat) (s : Nat) (hlen : plat.length = lvl.length) :
    (List.zipWith (fun c l => decide (l ≤ c.toNat)) (plat.drop s) (lvl.drop s)).all id = true ↔
      ∀ i (h1 : i < plat.length) (h2 : i < lvl.length), s ≤ i → lvl[i] ≤ plat[i].toNat := by
  rw [zipWith_all_iff]
  constructor
  · intro h i h1 h2 hs
    have := h (i - s) (by simp only [List.length_drop]; omega) (by simp only [List.length_drop]; omega)
    simp only [List.getElem_drop] at this
    have e : s + (i - s) = i := by omega
    simpa [e] using this
  · intro h i h1 h2
    simp only [List.length_drop] at h1 h2
    simp only [List.getElem_drop]
    exact h (s + i) (by omega) (by omega) (by omega)

theorem tdxSvnGe_spec (tee : Bytes) (lvl : List Nat) (h2 : 2 ≤ tee.length) :
    ∃ b, tdxSvnGe tee lvl = .ok b ∧ (b = true ↔ CompsGe tee lvl (tdxStart tee)) := by
  unfold tdxSvnGe CompsGe tdxStart
  by_cases hl : tee.length = lvl.length
  · have hne : (tee.length != lvl.length) = false := by simp [hl]
    simp only [hne, Bool.false_eq_true, ↓reduceIte]
    have h1 : 1 < tee.length := by omega
    rw [List.getElem?_eq_getElem h1]
    simp only [Option.getD_some]
    refine ⟨_, rfl, ?_⟩
    rw [drop_all_iff tee lvl _ hl]
    simp [hl]
  · have hne : (tee.length != lvl.length) = true := by simpa using hl
    simp only [hne, ↓reduceIte]
    exact ⟨false, rfl, by simp [hl]⟩

/-- a level matches the platform: SGX components, PCE SVN, TDX components (from index 2 when TEE_TCB_SVN[1] ≠ 0) are
    all not above the platform's -/
def Matches (comps : Bytes) (pcesvn : Nat) (tee : Bytes) (l : TcbLevelF) : Prop :=
  CompsGe comps l.sgx 0 ∧ l.pcesvn ≤ pcesvn ∧ CompsGe tee l.tdx (tdxStart tee)

theorem levelMatches_spec (comps : Bytes) (pcesvn : Nat) (tee : Bytes) (l : TcbLevelF) (h2 : 2 ≤ tee.length) :
    ∃ b, levelMatches comps pcesvn tee l = .ok b ∧ (b = true ↔ Matches comps pcesvn tee l) := by
  unfold levelMatches Matches
  by_cases h1 : cpuSvnGe comps l.sgx = true
  · have e1 := (cpuSvnGe_iff comps l.sgx).mp h1
    simp only [h1, Bool.not_true, Bool.false_eq_true, ↓reduceIte]
    by_cases hp : l.pcesvn ≤ pcesvn
    · simp only [hp, decide_true, Bool.not_true, Bool.false_eq_true, ↓reduceIte]
      obtain ⟨b, hb, hs⟩ := tdxSvnGe_spec tee l.tdx h2
      exact ⟨b, hb, by rw [hs]; simp [e1, hp]⟩
    · simp only [hp, decide_false, Bool.not_false, ↓reduceIte]
      exact ⟨false, rfl, by simp [hp]⟩
  · have h1' : cpuSvnGe comps l.sgx = false := by simpa using h1
    simp only [h1', Bool.not_false, ↓reduceIte]
    refine ⟨false, rfl, ?_⟩
    have : ¬ CompsGe comps l.sgx 0 := fun hc => h1 ((cpuSvnGe_iff comps l.sgx).mpr hc)
    simp [this]

/-- the first level in listed order that matches -/
def FirstMatch (comps : Bytes) (pcesvn : Nat) (tee : Bytes) (levels : List TcbLevelF) (l : TcbLevelF) : Prop :=
  ∃ i, ∃ h : i < levels.length, levels[i] = l ∧ Matches comps pcesvn tee l ∧
    ∀ j (hj : j < i), ¬ Matches comps pcesvn tee (levels[j]'(by omega))

theorem getMatchingTcbLevel_spec (comps : Bytes) (pcesvn : Nat) (tee : Bytes) (levels : List TcbLevelF) (h2 : 2 ≤ tee.length) :
    (∃ l, getMatchingTcbLevel comps pcesvn tee levels = .ok (some l) ∧ FirstMatch comps pcesvn tee levels l) ∨
    (getMatchingTcbLevel comps pcesvn tee levels = .ok none ∧ ∀ l ∈ levels, ¬ Matches comps pcesvn tee l) := by
  induction levels with
  | nil => exact Or.inr ⟨rfl, by simp⟩
  | cons l rest ih =>
    unfold getMatchingTcbLevel
    obtain ⟨b, hb, hs⟩ := levelMatches_spec comps pcesvn tee l h2
    rw [hb]
    cases b with
    | true =>
      simp only
      exact Or.inl ⟨l, rfl, 0, by simp, rfl, hs.mp rfl, by intro j hj; omega⟩
    | false =>
      simp only
      have hn : ¬ Matches comps pcesvn tee l := fun hm => by have := hs.mpr hm; cases this
      rcases ih with ⟨l', h1, i, hi, e, hm, hfirst⟩ | ⟨h1, hnone⟩
      · refine Or.inl ⟨l', h1, i + 1, by simp; omega, by simpa using e, hm, ?_⟩
        intro j hj
        cases j with
        | zero => simpa using hn
        | succ k => simpa using hfirst k (by omega)
      · refine Or.inr ⟨h1, ?_⟩
        intro x hx
        rcases List.mem_cons.mp hx with rfl | hx
        · exact hn
        · exact hnone x hx

/-- the TDX module level: first identity named `TDX_<tee[1]>`, then its first level with isvsvn ≤ tee[0] -/
def ModuleLevel (ids : List ModuleIdF) (t0 t1 : UInt8) (m : TcbLevelF) : Prop :=
  ∃ idn, ids.find? (fun x => x.id == verify_tcbInfoTdxModuleIDPrefix ++ hex2 t1) = some idn ∧
    idn.levels.find? (fun l => decide (l.isvsvn ≤ t0.toNat)) = some m

theorem getMatchingModuleLevel_iff (ids : List ModuleIdF) (t0 t1 : UInt8) (m : TcbLevelF) :
    getMatchingModuleLevel ids t0 t1 = some m ↔ ModuleLevel ids t0 t1 m := by
  unfold getMatchingModuleLevel ModuleLevel
  cases h : ids.find? (fun x => x.id == verify_tcbInfoTdxModuleIDPrefix ++ hex2 t1) with
  | none => simp
  | some idn => simp

/-- **C04 core**: the status check succeeds iff the first matching platform level is UpToDate and, when
    TEE_TCB_SVN[1] ≠ 0, the module level exists and is UpToDate as well. -/
theorem tcbStatusCheck_ok_iff (doc : TcbInfoDoc) (tee : Bytes) (pcesvn : Nat) (comps : Bytes) (h2 : 2 ≤ tee.length) :
    tcbStatusCheck Fixes.all doc tee pcesvn comps = .ok () ↔
      ∃ platform, FirstMatch comps pcesvn tee doc.levels platform ∧ upToDate platform = true ∧
        (tee[1]'(by omega) > 0 → ∃ m, ModuleLevel doc.identities (tee[0]'(by omega)) (tee[1]'(by omega)) m ∧ upToDate m = true) := by
  unfold tcbStatusCheck
  have e0 : tee[0]? = some (tee[0]'(by omega)) := List.getElem?_eq_getElem (by omega)
  have e1 : tee[1]? = some (tee[1]'(by omega)) := List.getElem?_eq_getElem (by omega)
  have uniq : ∀ a b, FirstMatch comps pcesvn tee doc.levels a → FirstMatch comps pcesvn tee doc.levels b → a = b := by
    rintro a b ⟨i, hi, ea, ma, fa⟩ ⟨j, hj, eb, mb, fb⟩
    have : i = j := by
      rcases Nat.lt_trichotomy i j with h | h | h
      · exact absurd (ea ▸ ma) (fb i h)
      · exact h
      · exact absurd (eb ▸ mb) (fa j h)
    subst this
    rw [← ea, ← eb]
  rcases getMatchingTcbLevel_spec comps pcesvn tee doc.levels h2 with ⟨p, hp, hfm⟩ | ⟨hn, hnone⟩
  · rw [hp]
    simp only [e0, e1]
    have hf4 : Fixes.all.f4 = true := rfl
    by_cases ht : tee[1]'(by omega) > 0
    · rw [if_pos ht]
      simp only [hf4, Bool.true_and]
      cases hm : getMatchingModuleLevel doc.identities (tee[0]'(by omega)) (tee[1]'(by omega)) with
      | none =>
        simp only
        constructor
        · intro h; cases h
        · rintro ⟨p', _, _, hmod⟩
          obtain ⟨m, hml, _⟩ := hmod ht
          rw [← getMatchingModuleLevel_iff, hm] at hml; cases hml
      | some m =>
        simp only
        by_cases hup : upToDate p = true
        · simp only [hup, Bool.not_true, Bool.false_eq_true, ↓reduceIte]
          by_cases hum : upToDate m = true
          · simp only [hum, ↓reduceIte, true_iff]
            exact ⟨p, hfm, hup, fun _ => ⟨m, (getMatchingModuleLevel_iff ..).mp hm, hum⟩⟩
          · simp only [hum, Bool.false_eq_true, ↓reduceIte]
            constructor
            · intro h; cases h
            · rintro ⟨p', _, _, hmod⟩
              obtain ⟨m', hml, hum'⟩ := hmod ht
              rw [← getMatchingModuleLevel_iff, hm] at hml; cases hml
              exact absurd hum' hum
        · have hup' : upToDate p = false := by simpa using hup
          simp only [hup', Bool.not_false, ↓reduceIte]
          constructor
          · intro h; cases h
          · rintro ⟨p', hfm', hup'', _⟩
            rw [uniq p' p hfm' hfm] at hup''
            exact absurd hup'' hup
    · rw [if_neg ht]
      by_cases hup : upToDate p = true
      · simp only [hup, ↓reduceIte, true_iff]
        exact ⟨p, hfm, hup, fun h => absurd h ht⟩
      · simp only [hup, Bool.false_eq_true, ↓reduceIte]
        constructor
        · intro h; cases h
        · rintro ⟨p', hfm', hup'', _⟩
          rw [uniq p' p hfm' hfm] at hup''
          exact absurd hup'' hup
  · rw [hn]
    simp only
    constructor
    · intro h; cases h
    · rintro ⟨p, ⟨i, hi, e, hm, _⟩, _⟩
      exact absurd hm (hnone p (e ▸ List.getElem_mem hi))

end Tdx.Verify
