/-
  Helper lemmas about `Tdx.Retry.step` / `run` (C20).
-/
import TdxModel.Retry

namespace Tdx.Retry

theorem nextDelay_eq (c : Cfg) (d : Int) : nextDelay c d = min (d + d) c.maxDelay := by
  unfold nextDelay
  simp only
  split <;> omega

theorem timerWait_eq (d : Int) : timerWait d = max d 0 := by
  unfold timerWait
  split <;> omega

/-- the wait that follows a failed call made with `delay` -/
def waitAfter (c : Cfg) (delay : Int) : Int := timerWait (nextDelay c delay)

theorem waitAfter_eq (c : Cfg) (d : Int) : waitAfter c d = max (min (d + d) c.maxDelay) 0 := by
  unfold waitAfter; rw [timerWait_eq, nextDelay_eq]

/-- everything the loop does when it goes round again -/
theorem step_retry {ρ : Type} {c : Cfg} {call : Call ρ} {tieK : Bool} {now delay : Int} {k : Nat} {w now' : Int}
    (h : step c call tieK now delay k = .retry w now') :
    call.resp = none ∧ w = waitAfter c delay ∧ now' = now + call.dur + w ∧
      (now' ≤ c.timeout ∨ (w = 0 ∧ tieK = true)) ∧
      (c.timeout < now' → tieK = true) ∧ (c.timeout = now' → c.timeout ≤ now + call.dur → tieK = true) := by
  unfold step at h
  simp only at h
  split at h
  · cases h
  · rename_i hr
    refine ⟨hr, ?_⟩
    split at h
    · split at h
      · rename_i hw
        cases h
        have hw1 := hw.1
        refine ⟨rfl, by omega, Or.inr hw, fun _ => hw.2, fun _ _ => hw.2⟩
      · cases h
    · split at h
      · cases h
        exact ⟨rfl, rfl, Or.inl (by omega), fun _ => by omega, fun _ _ => by omega⟩
      · split at h
        · rename_i hw
          cases h
          exact ⟨rfl, rfl, Or.inl (by omega), fun _ => by omega, fun _ _ => by omega⟩
        · cases h

/-- everything the loop does when it returns -/
theorem step_done {ρ : Type} {c : Cfg} {call : Call ρ} {tieK : Bool} {now delay : Int} {k : Nat} {r : Res ρ}
    (h : step c call tieK now delay k = .done r) :
    (∃ x, call.resp = some x ∧ r = .success k x (now + call.dur)) ∨
    (call.resp = none ∧ ∃ t, r = .timeout (k + 1) t ∧
      ((t = now + call.dur ∧ c.timeout ≤ t) ∨ (t = c.timeout ∧ now + call.dur < t ∧ t ≤ now + call.dur + waitAfter c delay))) := by
  unfold step at h
  simp only at h
  split at h
  · rename_i x hx
    cases h
    exact Or.inl ⟨x, hx, rfl⟩
  · rename_i hr
    refine Or.inr ⟨hr, ?_⟩
    split at h
    · split at h
      · cases h
      · cases h
        exact ⟨_, rfl, Or.inl ⟨rfl, by assumption⟩⟩
    · split at h
      · cases h
      · split at h
        · cases h
        · rename_i h1 h2 h3
          cases h
          refine ⟨_, rfl, Or.inr ⟨rfl, by omega, ?_⟩⟩
          unfold waitAfter
          omega

/-- a successful call ends the loop -/
theorem step_success {ρ : Type} (c : Cfg) {call : Call ρ} (tieK : Bool) (now delay : Int) (k : Nat) {x : ρ}
    (h : call.resp = some x) : step c call tieK now delay k = .done (.success k x (now + call.dur)) := by
  unfold step
  simp only [h]

@[simp] theorem run_zero {ρ : Type} (c : Cfg) (script : Nat → Call ρ) (tie : Nat → Bool) (now delay : Int) (k : Nat) :
    run c script tie 0 now delay k = ⟨[], [], .outOfFuel⟩ := rfl

theorem run_succ {ρ : Type} (c : Cfg) (script : Nat → Call ρ) (tie : Nat → Bool) (fuel : Nat) (now delay : Int) (k : Nat) :
    run c script tie (fuel + 1) now delay k =
      match step c (script k) (tie k) now delay k with
      | .done r => ⟨[now], [], r⟩
      | .retry w now' => (run c script tie fuel now' (nextDelay c delay) (k + 1)).push now w := rfl

/-- Induction principle for statements about runs: the three ways a run can go. -/
theorem run_induction {ρ : Type} (c : Cfg) (script : Nat → Call ρ) (tie : Nat → Bool)
    (P : Int → Int → Nat → Trace ρ → Prop)
    (fuel0 : ∀ now delay k, P now delay k ⟨[], [], .outOfFuel⟩)
    (done : ∀ now delay k r, step c (script k) (tie k) now delay k = .done r → P now delay k ⟨[now], [], r⟩)
    (retry : ∀ now delay k w now' tr, step c (script k) (tie k) now delay k = .retry w now' →
      P now' (nextDelay c delay) (k + 1) tr → P now delay k (tr.push now w)) :
    ∀ fuel now delay k, P now delay k (run c script tie fuel now delay k) := by
  intro fuel
  induction fuel with
  | zero => intro now delay k; exact fuel0 now delay k
  | succ n ih =>
    intro now delay k
    rw [run_succ]
    cases hs : step c (script k) (tie k) now delay k with
    | done r => exact done now delay k r hs
    | retry w now' => exact retry now delay k w now' _ hs (ih now' (nextDelay c delay) (k + 1))

end Tdx.Retry

namespace Tdx.Retry

@[simp] theorem push_res {ρ : Type} (now w : Int) (t : Trace ρ) : (t.push now w).res = t.res := rfl
@[simp] theorem push_calls {ρ : Type} (now w : Int) (t : Trace ρ) : (t.push now w).calls = now :: t.calls := rfl
@[simp] theorem push_waits {ρ : Type} (now w : Int) (t : Trace ρ) : (t.push now w).waits = w :: t.waits := rfl

theorem initialDelay_pos : 0 < initialDelay := by decide

variable {ρ : Type} (c : Cfg) (script : Nat → Call ρ) (tie : Nat → Bool)

/-- A run that ends in `success j r t`: call j succeeded with r, every earlier call made by this run
    failed, call j was the last one, and `t` is the end of that call. -/
theorem run_success (fuel : Nat) (now delay : Int) (k : Nat) :
    ∀ j r t, (run c script tie fuel now delay k).res = .success j r t →
      k ≤ j ∧ (script j).resp = some r ∧ (∀ i, k ≤ i → i < j → (script i).resp = none) ∧
      (run c script tie fuel now delay k).calls.length = j + 1 - k ∧
      (run c script tie fuel now delay k).waits.length = j - k ∧
      ∃ s, (run c script tie fuel now delay k).calls.getLast? = some s ∧ t = s + (script j).dur := by
  refine run_induction c script tie
    (fun _now _delay k tr => ∀ j r t, tr.res = .success j r t →
      k ≤ j ∧ (script j).resp = some r ∧ (∀ i, k ≤ i → i < j → (script i).resp = none) ∧
      tr.calls.length = j + 1 - k ∧ tr.waits.length = j - k ∧
      ∃ s, tr.calls.getLast? = some s ∧ t = s + (script j).dur) ?_ ?_ ?_ fuel now delay k
  · intro now delay k j r t h; cases h
  · intro now delay k r hs j x t h
    simp only at h
    subst h
    rcases step_done hs with ⟨y, hy, he⟩ | ⟨_, t', he, _⟩
    · cases he
      refine ⟨Nat.le_refl _, hy, fun i h1 h2 => by omega, by simp, by simp, now, by simp, rfl⟩
    · cases he
  · intro now delay k w now' tr hs ih j r t h
    simp only [push_res] at h
    obtain ⟨h1, h2, h3, h4, h5, s, h6, h7⟩ := ih j r t h
    obtain ⟨hnone, -⟩ := step_retry hs
    refine ⟨by omega, h2, ?_, by simp only [push_calls, List.length_cons]; omega,
      by simp only [push_waits, List.length_cons]; omega, s, ?_, h7⟩
    · intro i hi hj
      by_cases hik : i = k
      · subst hik; exact hnone
      · exact h3 i (by omega) hj
    · simp only [push_calls, List.getLast?_cons, h6, Option.getD_some]

/-- A run that ends in `timeout n t`: exactly the calls k … n-1 were made, all of them failed, and
    the deadline had been reached. -/
theorem run_timeout (fuel : Nat) (now delay : Int) (k : Nat) :
    ∀ n t, (run c script tie fuel now delay k).res = .timeout n t →
      k < n ∧ (run c script tie fuel now delay k).calls.length = n - k ∧
      (∀ i, k ≤ i → i < n → (script i).resp = none) ∧ c.timeout ≤ t := by
  refine run_induction c script tie
    (fun _now _delay k tr => ∀ n t, tr.res = .timeout n t →
      k < n ∧ tr.calls.length = n - k ∧ (∀ i, k ≤ i → i < n → (script i).resp = none) ∧ c.timeout ≤ t)
    ?_ ?_ ?_ fuel now delay k
  · intro now delay k n t h; cases h
  · intro now delay k r hs n t h
    simp only at h
    subst h
    rcases step_done hs with ⟨y, _, he⟩ | ⟨hnone, t', he, ht⟩
    · cases he
    · cases he
      refine ⟨by omega, by simp, fun i h1 h2 => ?_, by omega⟩
      have : i = k := by omega
      subst this; exact hnone
  · intro now delay k w now' tr hs ih n t h
    simp only [push_res] at h
    obtain ⟨h1, h2, h3, h4⟩ := ih n t h
    obtain ⟨hnone, -⟩ := step_retry hs
    refine ⟨by omega, by simp only [push_calls, List.length_cons]; omega, ?_, h4⟩
    intro i hi hj
    by_cases hik : i = k
    · subst hik; exact hnone
    · exact h3 i (by omega) hj

/-- A run that used up its fuel made `fuel` calls, all failed. -/
theorem run_outOfFuel (fuel : Nat) (now delay : Int) (k : Nat) :
    (run c script tie fuel now delay k).res = .outOfFuel →
      (run c script tie fuel now delay k).calls.length = fuel ∧
      ∀ i, k ≤ i → i < k + fuel → (script i).resp = none := by
  induction fuel generalizing now delay k with
  | zero => intro _; exact ⟨rfl, fun i h1 h2 => by omega⟩
  | succ n ih =>
    rw [run_succ]
    cases hs : step c (script k) (tie k) now delay k with
    | done r =>
      intro h
      simp only at h
      subst h
      rcases step_done hs with ⟨y, _, he⟩ | ⟨_, t', he, _⟩ <;> cases he
    | retry w now' =>
      intro h
      simp only [push_res] at h
      obtain ⟨h1, h2⟩ := ih now' (nextDelay c delay) (k + 1) h
      obtain ⟨hnone, -⟩ := step_retry hs
      refine ⟨by simp only [push_calls, List.length_cons]; omega, fun i hi hj => ?_⟩
      by_cases hik : i = k
      · subst hik; exact hnone
      · exact h2 i (by omega) (by omega)

theorem run_waits_le_max (hm : 0 ≤ c.maxDelay) (fuel : Nat) (now delay : Int) (k : Nat) :
    ∀ w ∈ (run c script tie fuel now delay k).waits, w ≤ c.maxDelay := by
  refine run_induction c script tie (fun _ _ _ tr => ∀ w ∈ tr.waits, w ≤ c.maxDelay) ?_ ?_ ?_ fuel now delay k
  · intro _ _ _ w hw; cases hw
  · intro _ _ _ _ _ w hw; cases hw
  · intro now delay k w0 now' tr hs ih w hw
    simp only [push_waits, List.mem_cons] at hw
    rcases hw with rfl | hw
    · obtain ⟨-, hw0, -⟩ := step_retry hs
      rw [hw0, waitAfter_eq]; omega
    · exact ih w hw

theorem run_waits_ge (hm : 0 < c.maxDelay) (fuel : Nat) (now delay : Int) (k : Nat)
    (hd : min initialDelay c.maxDelay ≤ delay) :
    ∀ w ∈ (run c script tie fuel now delay k).waits, min (initialDelay + initialDelay) c.maxDelay ≤ w := by
  have hpos := initialDelay_pos
  refine run_induction c script tie
    (fun _ delay _ tr => min initialDelay c.maxDelay ≤ delay →
      ∀ w ∈ tr.waits, min (initialDelay + initialDelay) c.maxDelay ≤ w) ?_ ?_ ?_ fuel now delay k hd
  · intro _ _ _ _ w hw; cases hw
  · intro _ _ _ _ _ _ w hw; cases hw
  · intro now delay k w0 now' tr hs ih hd w hw
    simp only [push_waits, List.mem_cons] at hw
    rcases hw with rfl | hw
    · obtain ⟨-, hw0, -⟩ := step_retry hs
      rw [hw0, waitAfter_eq]; omega
    · exact ih (by rw [nextDelay_eq]; omega) w hw

/-- with a positive maximum every retry advances virtual time by at least
    `m = min (2·initial delay) Max` and starts no later than the deadline: `fuel` calls suffice as soon
    as `fuel · m` exceeds the time left -/
theorem run_terminates (hm : 0 < c.maxDelay) (fuel : Nat) (now delay : Int) (k : Nat)
    (hd : min initialDelay c.maxDelay ≤ delay)
    (hf : max (c.timeout - now) 0 < (fuel : Int) * min (initialDelay + initialDelay) c.maxDelay) :
    (run c script tie fuel now delay k).res ≠ .outOfFuel := by
  have hpos := initialDelay_pos
  induction fuel generalizing now delay k with
  | zero => simp only [Int.natCast_zero, Int.zero_mul] at hf; omega
  | succ n ih =>
    rw [run_succ]
    cases hs : step c (script k) (tie k) now delay k with
    | done r =>
      simp only
      rcases step_done hs with ⟨y, _, he⟩ | ⟨_, t', he, _⟩ <;> (subst he; simp)
    | retry w now' =>
      simp only [push_res]
      obtain ⟨-, hw, hnow', hle, -⟩ := step_retry hs
      rw [waitAfter_eq] at hw
      apply ih
      · rw [nextDelay_eq]; omega
      · have hmul : ((n + 1 : Nat) : Int) * min (initialDelay + initialDelay) c.maxDelay
            = (n : Int) * min (initialDelay + initialDelay) c.maxDelay + min (initialDelay + initialDelay) c.maxDelay := by
          rw [Int.natCast_succ, Int.add_mul, Int.one_mul]
        rw [hmul] at hf
        have hdur : (0 : Int) ≤ (script k).dur := Int.natCast_nonneg _
        omega

/-- when every wait is positive a timeout is reported at the deadline or at the end of the call
    that overran it -/
theorem run_timeout_le (hm : 0 < c.maxDelay) (G : Nat) (hG : ∀ k, (script k).dur ≤ G)
    (fuel : Nat) (now delay : Int) (k : Nat)
    (hd : min initialDelay c.maxDelay ≤ delay) (hn : now ≤ max c.timeout 0) :
    ∀ n t, (run c script tie fuel now delay k).res = .timeout n t → t ≤ max c.timeout 0 + G := by
  have hpos := initialDelay_pos
  refine run_induction c script tie
    (fun now delay _ tr => min initialDelay c.maxDelay ≤ delay → now ≤ max c.timeout 0 →
      ∀ n t, tr.res = .timeout n t → t ≤ max c.timeout 0 + G) ?_ ?_ ?_ fuel now delay k hd hn
  · intro _ _ _ _ _ n t h; cases h
  · intro now delay k r hs hd hn n t h
    simp only at h
    subst h
    have hk : ((script k).dur : Int) ≤ G := Int.ofNat_le.mpr (hG k)
    rcases step_done hs with ⟨y, _, he⟩ | ⟨_, t', he, ht⟩
    · cases he
    · cases he
      omega
  · intro now delay k w now' tr hs ih hd hn n t h
    simp only [push_res] at h
    obtain ⟨-, hw, hnow', hle, -⟩ := step_retry hs
    rw [waitAfter_eq] at hw
    exact ih (by rw [nextDelay_eq]; omega) (by omega) n t h

/-- F13: with `Max ≤ 0 < Timeout` a failing zero-duration call is retried at once, at the same
    virtual instant, whatever the tie resolution. -/
theorem step_spin {call : Call ρ} (hm : c.maxDelay ≤ 0) (ht : 0 < c.timeout) (hd : call.dur = 0) (hr : call.resp = none)
    (tieK : Bool) (delay : Int) (k : Nat) : step c call tieK 0 delay k = .retry 0 0 := by
  have hw : timerWait (nextDelay c delay) = 0 := by rw [timerWait_eq, nextDelay_eq]; omega
  unfold step
  simp only [hr, hd, hw]
  have h1 : ¬ c.timeout ≤ 0 := by omega
  simp [h1, ht]

theorem run_spin (hm : c.maxDelay ≤ 0) (ht : 0 < c.timeout) (hs : ∀ k, (script k).dur = 0 ∧ (script k).resp = none)
    (n : Nat) (delay : Int) (k : Nat) :
    run c script tie n 0 delay k = ⟨List.replicate n 0, List.replicate n 0, .outOfFuel⟩ := by
  induction n generalizing delay k with
  | zero => rfl
  | succ n ih =>
    rw [run_succ, step_spin c hm ht (hs k).1 (hs k).2]
    simp only [ih, Trace.push, List.replicate_succ]

end Tdx.Retry

namespace Tdx.Retry

theorem min_scale (p a M : Int) (hp : 1 ≤ p) (hM : 0 ≤ M) : min (p * min a M) M = min (p * a) M := by
  by_cases h : a ≤ M
  · have : min a M = a := by omega
    rw [this]
  · have : min a M = M := by omega
    rw [this]
    have h1 : 1 * M ≤ p * M := Int.mul_le_mul_of_nonneg_right hp hM
    have h2 : p * M ≤ p * a := Int.mul_le_mul_of_nonneg_left (by omega) (by omega)
    omega

theorem one_le_two_pow (n : Nat) : (1 : Int) ≤ 2 ^ n := by
  induction n with
  | zero => simp
  | succ n ih => rw [Int.pow_succ]; omega

/-- exponential back-off: the i-th wait of a run entered with `delay ≥ 0` is `min (2^(i+1)·delay) Max` -/
theorem run_waits_exact {ρ : Type} (c : Cfg) (script : Nat → Call ρ) (tie : Nat → Bool) (hm : 0 ≤ c.maxDelay)
    (fuel : Nat) (now delay : Int) (k : Nat) (hd : 0 ≤ delay) :
    ∀ i w, (run c script tie fuel now delay k).waits[i]? = some w → w = min (2 ^ (i + 1) * delay) c.maxDelay := by
  refine run_induction c script tie
    (fun _ delay _ tr => 0 ≤ delay → ∀ i w, tr.waits[i]? = some w → w = min (2 ^ (i + 1) * delay) c.maxDelay)
    ?_ ?_ ?_ fuel now delay k hd
  · intro _ _ _ _ i w h; simp at h
  · intro _ _ _ _ _ _ i w h; simp at h
  · intro now delay k w0 now' tr hs ih hd i w h
    obtain ⟨-, hw0, -⟩ := step_retry hs
    rw [waitAfter_eq] at hw0
    cases i with
    | zero =>
      simp only [push_waits, List.getElem?_cons_zero, Option.some.injEq] at h
      subst h
      simp only [Nat.zero_add, Int.pow_one]
      omega
    | succ i =>
      simp only [push_waits, List.getElem?_cons_succ] at h
      have hnd : 0 ≤ nextDelay c delay := by rw [nextDelay_eq]; omega
      have := ih hnd i w h
      rw [this, nextDelay_eq, min_scale _ _ _ (one_le_two_pow _) hm]
      congr 1
      rw [Int.pow_succ 2 (i + 1), Int.mul_assoc, Int.two_mul]

/-- F13, second face: with `Max ≤ 0` the timer is always ready, so even at or after the deadline the
    select is a tie; under the resolution that always picks the timer the loop goes on. -/
theorem step_spin_tie {ρ : Type} (c : Cfg) {call : Call ρ} (hm : c.maxDelay ≤ 0) (hd : call.dur = 0) (hr : call.resp = none)
    (delay : Int) (k : Nat) : step c call true 0 delay k = .retry 0 0 := by
  have hw : timerWait (nextDelay c delay) = 0 := by rw [timerWait_eq, nextDelay_eq]; omega
  unfold step
  simp only [hr, hd, hw]
  by_cases h1 : c.timeout ≤ 0
  · simp [h1]
  · have : 0 < c.timeout := by omega
    simp [h1, this]

theorem run_spin_tie {ρ : Type} (c : Cfg) (script : Nat → Call ρ) (hm : c.maxDelay ≤ 0)
    (hs : ∀ k, (script k).dur = 0 ∧ (script k).resp = none) (n : Nat) (delay : Int) (k : Nat) :
    run c script (fun _ => true) n 0 delay k = ⟨List.replicate n 0, List.replicate n 0, .outOfFuel⟩ := by
  induction n generalizing delay k with
  | zero => rfl
  | succ n ih =>
    rw [run_succ, step_spin_tie c hm (hs k).1 (hs k).2]
    simp only [ih, Trace.push, List.replicate_succ]

end Tdx.Retry
