/- simp set collecting the regenerated constants (`simp only [gen_const]` turns them into literals) -/
import Lean.Meta.Tactic.Simp.RegisterCommand
register_simp_attr gen_const
