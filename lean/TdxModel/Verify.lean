/-
  TdxModel.Verify — verify/verify.go: the whole `tdxQuoteV4` pipeline as decision logic over
  *oracle facts* (DESIGN.md §5a).  Everything the repository implements itself is modelled:
  control flow, option gating, which certificate plays which role, name / serial / time / mask /
  level comparisons, fetch order and URLs, what is stored in the caller's options.  What the
  standard library implements (PEM, X.509 parsing and signatures, JSON, ECDSA, SHA-256) enters as
  facts: the `Crypto` functions and the `World` tables.

  Property-satisfying behaviour where the pinned tree deviates (findings F2, F4, F5, F6, F9):
  `fx : Fixes` selects, per finding, the repaired (`true`) or the pinned (`false`) behaviour; the
  property theorems are about `Fixes.all`.
-/
import TdxModel.Abi
import TdxModel.PckExt

namespace Tdx.Verify
open Tdx Tdx.Gen Tdx.Abi

/-! ### facts -/

/-- facts about one parsed X.509 certificate -/
structure CertF where
  version : Nat := 3
  sigAlgOk : Bool := true          -- SignatureAlgorithm == ECDSAWithSHA256
  pkAlgOk : Bool := true           -- PublicKeyAlgorithm == ECDSA (then the key is an *ecdsa.PublicKey)
  curveOk : Bool := true           -- curve name == "P-256"
  subjectCN : String := ""
  issuerCN : String := ""
  subject : Nat := 0               -- identity of Subject.String()
  issuer : Nat := 0                -- identity of Issuer.String()
  serial : Nat := 0
  notBefore : Int := 0             -- ns since the epoch
  notAfter : Int := 0
  canSignCert : Bool := false      -- what CheckSignatureFrom demands of a parent: basic constraints CA (+ key usage)
  canSignCrl : Bool := false
  keyId : Nat := 0                 -- identity of the subject public key (never 0)
  signedBy : Nat := 0              -- key whose signature over the TBS verifies (0: none)
  crlDPs : List String := []
  pck : PckExt.Cert := { exts := [] }   -- extension facts (consulted for the leaf only)

instance : Inhabited CertF := ⟨{}⟩

/-- one step of `pem.Decode` -/
structure PemBlock where
  isCert : Bool        -- block.Type == "CERTIFICATE"
  remLen : Nat         -- len(rest)
  remIsNul : Bool      -- rest == []byte{0}
  cert : Option Nat    -- index of the parsed certificate; `none`: x509.ParseCertificate fails
deriving Repr, DecidableEq

/-- what `pem.Decode` yields step by step (`none`: no block found) -/
abbrev PemFacts := List (Option PemBlock)

structure CrlF where
  issuer : Nat
  signedBy : Nat
  revoked : List Nat
  nextUpdate : Int
deriving Repr, DecidableEq

structure TcbLevelF where
  sgx : List Nat := []
  pcesvn : Nat := 0
  tdx : List Nat := []
  isvsvn : Nat := 0
  status : String := ""
deriving Repr, DecidableEq, Inhabited

structure ModuleIdF where
  id : String
  levels : List TcbLevelF
deriving Repr, DecidableEq

structure TcbInfoDoc where
  id : String := ""
  version : Nat := 0
  nextUpdate : Int := 0
  fmspc : String := ""
  pceId : String := ""
  modMrsigner : Bytes := []
  modAttributes : Bytes := []
  modMask : Bytes := []
  identities : List ModuleIdF := []
  levels : List TcbLevelF := []
deriving Repr, DecidableEq, Inhabited

structure QeIdDoc where
  id : String := ""
  version : Nat := 0
  nextUpdate : Int := 0
  miscselect : Bytes := []
  miscselectMask : Bytes := []
  attributes : Bytes := []
  attributesMask : Bytes := []
  mrsigner : Bytes := []
  isvProdId : Nat := 0
  levels : List TcbLevelF := []
deriving Repr, DecidableEq, Inhabited

/-- the issuer-chain header of a response, as `headerToIssuerChain` sees it -/
inductive HdrF where
  | absent                         -- header key missing
  | count (n : Nat)                -- n ≠ 1 values
  | empty                          -- the single value is ""
  | unescapeErr                    -- url.QueryUnescape fails
  | blocks (bs : PemFacts)         -- PEM decoding steps of the unescaped value
deriving Repr, DecidableEq

/-- a JSON response body (`Doc` = the decoded member) -/
structure BodyF (Doc : Type) where
  structOk : Bool                  -- json.Unmarshal(body, &struct) succeeds
  signature : String               -- the struct's Signature after that decode
  structDoc : Doc                  -- the struct's document after that decode (case-folded, later wins: unsigned content can land here)
  raw : Option Bytes               -- map["tcbInfo"] / map["enclaveIdentity"]: the exact raw member bytes
  rawDoc : Option Doc              -- decode of those raw bytes; `none`: decode error
  zero : Bool                      -- reflect.DeepEqual(result, zero value)

inductive FetchF (Body : Type) where
  | fail
  | resp (hdr : HdrF) (body : Body)

/-- everything a call can learn from the outside -/
structure World where
  certs : List CertF
  chainPem : Option PemFacts               -- `none`: the chain bytes are nil
  pool : Option (List Nat)                 -- Options.TrustedRoots (certificate indices); `none` = nil
  embeddedRoot : Nat
  fetchTcb : String → FetchF (BodyF TcbInfoDoc)
  fetchQe : String → FetchF (BodyF QeIdDoc)
  fetchPckCrl : String → FetchF (Option CrlF)          -- body: parsed CRL or parse error
  fetchRootCrl : String → Option (Option CrlF)         -- `none`: fetch error; `some none`: parse error
  clock : Int                                          -- time.Now() during the call

/-- standard-library cryptography -/
structure Crypto where
  onCurve : Bytes → Bool                                 -- elliptic.P256().IsOnCurve(X, Y) of a 64-byte X‖Y
  verifyRaw : Bytes → Bytes → Bytes → Bool               -- ecdsa.VerifyASN1(key X‖Y, sha256(msg), DER(r‖s))
  verifyCert : Nat → Bytes → Bytes → Bool                -- cert.CheckSignature(ECDSAWithSHA256, msg, DER(r‖s))
  sha256 : Bytes → Bytes

structure TimeSet where
  pckCertChain : Int
  tcbInfo : Int
  qeIdentity : Int
  pckCrl : Int
  rootCaCrl : Int
deriving Repr, DecidableEq

structure Opts where
  checkRevocations : Bool
  getCollateral : Bool
  now : Option TimeSet
deriving Repr, DecidableEq

/-- which findings are repaired -/
structure Fixes where
  f2 : Bool   -- nil-safe logging before CheckQuoteV4
  f4 : Bool   -- platform level must be UpToDate also when the module level is consulted
  f6 : Bool   -- values decoded from the raw signed member
  f9 : Bool   -- a defaulted Now is not persisted in the caller's options
deriving Repr, DecidableEq

def Fixes.all : Fixes := ⟨true, true, true, true⟩
def Fixes.none : Fixes := ⟨false, false, false, false⟩

/-! ### small helpers -/

def runChecks : List (Bool × String) → Outcome Unit
  | [] => .ok ()
  | (c, e) :: rest => if c then runChecks rest else .err e

def cert (w : World) (i : Nat) : CertF := w.certs.getD i default

def defaultTimeSet (t : Int) : TimeSet := ⟨t, t, t, t, t⟩

/-! ### chain extraction (`extractChainFromQuoteV4`) -/

structure Chain where
  leaf : Nat
  inter : Nat
  root : Nat
deriving Repr, DecidableEq

def extractChain (pem : Option PemFacts) : Outcome Chain :=
  match pem with
  | none => .err "chain nil"
  | some steps =>
    match steps[0]? with
    | some (some b1) =>
      if b1.remLen == 0 || !b1.isCert then .err "chain invalid" else
      match b1.cert with
      | none => .err "leaf DER"
      | some leaf =>
        match steps[1]? with
        | some (some b2) =>
          if b2.remLen == 0 || !b2.isCert then .err "chain invalid" else
          match b2.cert with
          | none => .err "intermediate DER"
          | some inter =>
            match steps[2]? with
            | some (some b3) =>
              if !b3.isCert then .err "chain invalid"
              else if b3.remLen != 0 && !b3.remIsNul then .err "trailing bytes"
              else match b3.cert with
                | none => .err "root DER"
                | some root => .ok ⟨leaf, inter, root⟩
            | _ => .err "chain invalid"
        | _ => .err "chain invalid"
    | _ => .err "chain invalid"

/-! ### certificates -/

/-- `cert.CheckSignatureFrom(parent)` -/
def sigFrom (c p : CertF) : Bool := p.canSignCert && c.signedBy == p.keyId && p.keyId != 0

/-- `validateCertificate(cert, parent, phrase)` -/
def validateCertificate (c p : CertF) (phrase : String) : List (Bool × String) :=
  [(c.version == 3, "cert version"), (c.sigAlgOk, "cert signature algorithm"), (c.pkAlgOk, "cert key algorithm"),
   (c.curveOk, "cert curve"), (c.subjectCN == phrase, "cert subject name"), (c.issuer == p.subject, "cert issuer name"),
   (sigFrom c p, "cert signature")]

def inWindow (c : CertF) (t : Int) : Bool := decide (c.notBefore ≤ t) && decide (t ≤ c.notAfter)

/-- `x509.Certificate.Verify` with the given roots, at most one intermediate, at time `t`:
    the certificate is in its window and is itself a root, or is signed by an in-window root, or by the
    in-window CA intermediate which is signed by an in-window root. -/
def pathValid (w : World) (roots : List Nat) (inter : Option Nat) (c : Nat) (t : Int) : Bool :=
  let cf := cert w c
  inWindow cf t &&
    (roots.contains c ||
     roots.any (fun r => let rf := cert w r
       cf.issuer == rf.subject && sigFrom cf rf && inWindow rf t) ||
     (match inter with
      | none => false
      | some i => let f := cert w i
        i != c && cf.issuer == f.subject && sigFrom cf f && inWindow f t &&
        (roots.contains i ||
         roots.any (fun r => let rf := cert w r
           f.issuer == rf.subject && sigFrom f rf && inWindow rf t))))

/-- `x509Options(options.TrustedRoots, …)`: the pool, or the embedded Intel root when nil -/
def effectiveRoots (w : World) : List Nat := w.pool.getD [w.embeddedRoot]

/-- `validateCRL(crl, cert)` -/
def validateCRL (crl : CrlF) (c : CertF) : List (Bool × String) :=
  [(crl.issuer == c.subject, "crl issuer"), (c.canSignCrl && crl.signedBy == c.keyId && c.keyId != 0, "crl signature")]

/-! ### root of trust (`getTrustedRoots` / `RootOfTrustToOptions`) -/

/-- a CA bundle as `AppendCertsFromPEM` sees it: `none` = the file cannot be read; otherwise the certificates it contains -/
abbrev Bundle := Option (List Nat)

/-- `getTrustedRoots`: nil pool when nothing is configured; an unreadable or certificate-free bundle is an error -/
def rotToPool (files : List Bundle) (inline : List (List Nat)) : Outcome (Option (List Nat)) :=
  if files.isEmpty && inline.isEmpty then .ok none
  else if files.any (fun b => match b with | none => true | some l => l.isEmpty) then .err "CA bundle file"
  else if inline.any (·.isEmpty) then .err "CA bundle inline"
  else .ok (some ((files.filterMap id).flatten ++ inline.flatten))

/-! ### collateral -/

structure Collateral where
  tcbSigner : Nat
  tcbRoot : Nat
  tcb : TcbInfoDoc
  tcbSig : String
  tcbRaw : Bytes
  tcbZero : Bool
  qeSigner : Nat
  qeRoot : Nat
  qe : QeIdDoc
  qeSig : String
  qeRaw : Bytes
  qeZero : Bool
  pckCrl : Option (Nat × Nat × CrlF) := none     -- signer, root, CRL
  rootCrl : Option CrlF := none

/-- `headerToIssuerChain` -/
def headerToIssuerChain (h : HdrF) : Outcome (Nat × Nat) :=
  match h with
  | .absent => .err "issuer chain header missing"
  | .count _ => .err "issuer chain header count"
  | .empty => .err "issuer chain header empty"
  | .unescapeErr => .err "issuer chain unescape"
  | .blocks steps =>
    match steps[0]? with
    | some (some b1) =>
      if b1.remLen == 0 then .err "issuer chain signer PEM"
      else if !b1.isCert then .err "issuer chain block type"
      else match b1.cert with
        | none => .err "issuer chain signer DER"
        | some s =>
          match steps[1]? with
          | some (some b2) =>
            if b2.remLen != 0 then .err "issuer chain root PEM"
            else if !b2.isCert then .err "issuer chain block type"
            else match b2.cert with
              | none => .err "issuer chain root DER"
              | some r => .ok (s, r)
          | _ => .err "issuer chain root PEM"
    | _ => .err "issuer chain signer PEM"

def tcbInfoURL (fmspc : String) : String := pcs_TdxBaseURL ++ "/tcb?fmspc=" ++ fmspc
def qeIdentityURL : String := pcs_TdxBaseURL ++ "/qe/identity"
def pckCrlURL (ca : String) : String := pcs_SgxBaseURL ++ "/pckcrl?ca=" ++ ca ++ "&encoding=der"

/-- body handling of `getTcbInfo` / `getQeIdentity`: returns (document, signature, raw member, zero) -/
def bodyValues {Doc : Type} (fx : Fixes) (b : BodyF Doc) : Outcome (Doc × String × Bytes × Bool) :=
  if !b.structOk then .err "response JSON"
  else match b.raw with
    | none => .err "response member missing"
    | some raw =>
      if fx.f6 then
        match b.rawDoc with
        | none => .err "member JSON"
        | some d => .ok (d, b.signature, raw, b.zero)
      else .ok (b.structDoc, b.signature, raw, b.zero)

/-- `getRootCrl`: the first distribution point that fetches and parses wins -/
def getRootCrl (w : World) : List String → List String × Option CrlF
  | [] => ([], none)
  | u :: rest =>
    match w.fetchRootCrl u with
    | some (some crl) => ([u], some crl)
    | _ => let (us, r) := getRootCrl w rest; (u :: us, r)

/-- the first half of `obtainCollateral`: TCB Info, then QE Identity -/
def obtainBase (fx : Fixes) (w : World) (fmspc : String) : List String × Outcome Collateral :=
  let u1 := tcbInfoURL fmspc
  match w.fetchTcb u1 with
  | .fail => ([u1], .err "fetch tcbInfo")
  | .resp h1 b1 =>
    match headerToIssuerChain h1 with
    | .err e => ([u1], .err e)
    | .panic => ([u1], .panic)
    | .ok (ts, tr) =>
    match bodyValues fx b1 with
    | .err e => ([u1], .err e)
    | .panic => ([u1], .panic)
    | .ok (tdoc, tsig, traw, tzero) =>
    let u2 := qeIdentityURL
    match w.fetchQe u2 with
    | .fail => ([u1, u2], .err "fetch qeIdentity")
    | .resp h2 b2 =>
      match headerToIssuerChain h2 with
      | .err e => ([u1, u2], .err e)
      | .panic => ([u1, u2], .panic)
      | .ok (qs, qr) =>
      match bodyValues fx b2 with
      | .err e => ([u1, u2], .err e)
      | .panic => ([u1, u2], .panic)
      | .ok (qdoc, qsig, qraw, qzero) =>
        ([u1, u2], .ok { tcbSigner := ts, tcbRoot := tr, tcb := tdoc, tcbSig := tsig, tcbRaw := traw, tcbZero := tzero,
                         qeSigner := qs, qeRoot := qr, qe := qdoc, qeSig := qsig, qeRaw := qraw, qeZero := qzero })

/-- the second half (only with `CheckRevocations`): PCK CRL for the leaf's issuing CA, then the Root CA CRL from the
    distribution points of the QE-identity issuer root -/
def obtainCrls (w : World) (ca : String) (base : Collateral) : List String × Outcome Collateral :=
  let u3 := pckCrlURL ca
  match w.fetchPckCrl u3 with
  | .fail => ([u3], .err "fetch pck crl")
  | .resp h3 b3 =>
    match headerToIssuerChain h3 with
    | .err e => ([u3], .err e)
    | .panic => ([u3], .panic)
    | .ok (cs, crt) =>
    match b3 with
    | none => ([u3], .err "parse pck crl")
    | some pckCrl =>
      let dps := (cert w base.qeRoot).crlDPs
      if dps.isEmpty then ([u3], .err "root crl url missing")
      else
        match (getRootCrl w dps).2 with
        | none => (u3 :: (getRootCrl w dps).1, .err "fetch root crl")
        | some rootCrl => (u3 :: (getRootCrl w dps).1, .ok { base with pckCrl := some (cs, crt, pckCrl), rootCrl := some rootCrl })

/-- `obtainCollateral`: the fetches in order; returns the URLs requested and the collateral or an error -/
def obtainCollateral (fx : Fixes) (w : World) (fmspc ca : String) (cr : Bool) : List String × Outcome Collateral :=
  match (obtainBase fx w fmspc).2 with
  | .err e => ((obtainBase fx w fmspc).1, .err e)
  | .panic => ((obtainBase fx w fmspc).1, .panic)
  | .ok base =>
    if !cr then ((obtainBase fx w fmspc).1, .ok base)
    else ((obtainBase fx w fmspc).1 ++ (obtainCrls w ca base).1, (obtainCrls w ca base).2)

/-! ### the checks of `verifyEvidenceV4` -/

/-- `verifyPCKCertificationChain` -/
def chainChecks (w : World) (ch : Chain) (o : Opts) (T : TimeSet) (col : Option Collateral) : List (Bool × String) :=
  let root := cert w ch.root
  let inter := cert w ch.inter
  let leaf := cert w ch.leaf
  validateCertificate root root verify_rootCertPhrase ++
  validateCertificate inter root verify_intermediateCertPhrase ++
  validateCertificate leaf inter verify_pckCertPhrase ++
  [(pathValid w (effectiveRoots w) (some ch.inter) ch.leaf T.pckCertChain, "leaf not anchored in trusted roots")] ++
  (if o.checkRevocations then
    (if o.getCollateral then
      match col.bind (·.rootCrl), col.bind (·.pckCrl) with
      | some rootCrl, some (_, _, pckCrl) =>
        validateCRL rootCrl root ++ validateCRL pckCrl inter ++
        [(pckCrl.issuer == leaf.issuer, "pck crl issuer vs leaf issuer"),
         (!rootCrl.revoked.contains inter.serial, "intermediate revoked"),
         (!pckCrl.revoked.contains leaf.serial, "leaf revoked")]
      | _, _ => [(false, "crl missing")]
    else [(false, "revocation without collateral")])
   else []) ++
  [(decide (T.pckCertChain ≤ root.notAfter), "root expired"),
   (decide (T.pckCertChain ≤ inter.notAfter), "intermediate expired"),
   (decide (T.pckCertChain ≤ leaf.notAfter), "leaf expired")]

/-- `verifyCollateral` + `checkCollateralExpiration` -/
def collateralChecks (w : World) (o : Opts) (T : TimeSet) (col : Option Collateral) : List (Bool × String) :=
  match col with
  | none => [(false, "collateral nil")]
  | some c =>
    [(!c.tcbZero, "tcbInfo empty"), (!c.qeZero, "qeIdentity empty")] ++
    (if o.checkRevocations then [(c.pckCrl.isSome, "pck crl missing"), (c.rootCrl.isSome, "root crl missing")] else []) ++
    [(decide (T.tcbInfo ≤ c.tcb.nextUpdate), "tcbInfo expired"),
     (decide (T.qeIdentity ≤ c.qe.nextUpdate), "qeIdentity expired"),
     (decide (T.tcbInfo ≤ (cert w c.tcbSigner).notAfter), "tcbInfo signer expired"),
     (decide (T.tcbInfo ≤ (cert w c.tcbRoot).notAfter), "tcbInfo root expired"),
     (decide (T.qeIdentity ≤ (cert w c.qeRoot).notAfter), "qeIdentity root expired"),
     (decide (T.qeIdentity ≤ (cert w c.qeSigner).notAfter), "qeIdentity signer expired")] ++
    (if o.checkRevocations then
      match c.rootCrl, c.pckCrl with
      | some rootCrl, some (cs, crt, pckCrl) =>
        [(decide (T.rootCaCrl ≤ rootCrl.nextUpdate), "root crl expired"),
         (decide (T.pckCrl ≤ pckCrl.nextUpdate), "pck crl expired"),
         (decide (T.pckCrl ≤ (cert w cs).notAfter), "pck crl signer expired"),
         (decide (T.pckCrl ≤ (cert w crt).notAfter), "pck crl root expired")]
      | _, _ => []
     else [])

def isHex128 (s : String) : Option Bytes :=
  match unhex s with
  | some b => if b.length == abi_signatureSize then some b else none
  | none => none

/-- `verifyResponse` -/
def responseChecks (C : Crypto) (w : World) (o : Opts) (rootI signerI : Nat) (raw : Bytes) (sigHex : String)
    (rootCrl : Option CrlF) (t : Int) : List (Bool × String) :=
  let root := cert w rootI
  let signer := cert w signerI
  validateCertificate root root verify_rootCertPhrase ++
  validateCertificate signer root verify_tcbSigningPhrase ++
  [(pathValid w (effectiveRoots w) none signerI t, "signer not anchored in trusted roots"),
   ((unhex sigHex).isSome, "signature hex"),
   ((isHex128 sigHex).isSome, "signature size"),
   (C.verifyCert signerI raw ((isHex128 sigHex).getD []), "response signature")] ++
  (if o.checkRevocations then
    (if o.getCollateral then
      match rootCrl with
      | some crl => validateCRL crl root ++ [(!crl.revoked.contains signer.serial, "signer revoked")]
      | none => [(false, "root crl missing")]
     else [(false, "revocation without collateral")])
   else [])

/-- `verifyTCBinfo` and `verifyQeIdentity` -/
def tcbInfoChecks (C : Crypto) (w : World) (o : Opts) (T : TimeSet) (c : Collateral) : List (Bool × String) :=
  [(c.tcb.id == verify_tcbInfoID, "tcbInfo id"), (c.tcb.version == verify_tcbInfoVersion, "tcbInfo version"),
   (!c.tcb.levels.isEmpty, "tcbInfo levels empty")] ++
  responseChecks C w o c.tcbRoot c.tcbSigner c.tcbRaw c.tcbSig c.rootCrl T.tcbInfo

def qeIdentityChecks (C : Crypto) (w : World) (o : Opts) (T : TimeSet) (c : Collateral) : List (Bool × String) :=
  [(c.qe.id == verify_qeIdentityID, "qeIdentity id"), (c.qe.version == verify_qeIdentityVersion, "qeIdentity version"),
   (!c.qe.levels.isEmpty, "qeIdentity levels empty")] ++
  responseChecks C w o c.qeRoot c.qeSigner c.qeRaw c.qeSig c.rootCrl T.qeIdentity

/-! ### TCB evaluation (`verifyTdQuoteBody`) -/

/-- `isCPUSvnHigherOrEqual` -/
def cpuSvnGe (comps : Bytes) (lvl : List Nat) : Bool :=
  comps.length == lvl.length && (List.zipWith (fun c l => decide (l ≤ c.toNat)) comps lvl).all id

/-- `isTdxTcbSvnHigherOrEqual` as pinned (finding F16): `tee[1]` is a Go index read after a same-length check only — a TEE TCB
    SVN of fewer than two bytes against a level listing equally few TDX components crashes.  `verify.TdxQuote` never gets
    there (the structural check demands 16 bytes); `verify.SupportedTcbLevelsFromCollateral` does. -/
def tdxSvnGeUnfixed (tee : Bytes) (lvl : List Nat) : Outcome Bool :=
  if tee.length != lvl.length then .ok false
  else match tee[1]? with
    | none => .panic
    | some t1 =>
      let start := if t1 > 0 then 2 else 0
      .ok ((List.zipWith (fun c l => decide (l ≤ c.toNat)) (tee.drop start) (lvl.drop start)).all id)

/-- `isTdxTcbSvnHigherOrEqual` (repaired, fix F16): fewer than two bytes match no level -/
def tdxSvnGe (tee : Bytes) (lvl : List Nat) : Outcome Bool :=
  if tee.length != lvl.length then .ok false
  else match tee[1]? with
    | none => .ok false
    | some t1 =>
      let start := if t1 > 0 then 2 else 0
      .ok ((List.zipWith (fun c l => decide (l ≤ c.toNat)) (tee.drop start) (lvl.drop start)).all id)

def levelMatches (comps : Bytes) (pcesvn : Nat) (tee : Bytes) (l : TcbLevelF) : Outcome Bool :=
  if !cpuSvnGe comps l.sgx then .ok false
  else if !(decide (l.pcesvn ≤ pcesvn)) then .ok false
  else tdxSvnGe tee l.tdx

/-- `getMatchingTcbLevel`: first level in listed order that matches -/
def getMatchingTcbLevel (comps : Bytes) (pcesvn : Nat) (tee : Bytes) : List TcbLevelF → Outcome (Option TcbLevelF)
  | [] => .ok none
  | l :: rest =>
    match levelMatches comps pcesvn tee l with
    | .ok true => .ok (some l)
    | .ok false => getMatchingTcbLevel comps pcesvn tee rest
    | .err e => .err e
    | .panic => .panic

def hex2 (b : UInt8) : String := hexByte b

/-- `getMatchingTdxModuleTcbLevel`: first identity with id `TDX_<tee[1]>`, then its first level with isvsvn ≤ tee[0] -/
def getMatchingModuleLevel (ids : List ModuleIdF) (t0 t1 : UInt8) : Option TcbLevelF :=
  match ids.find? (fun m => m.id == verify_tcbInfoTdxModuleIDPrefix ++ hex2 t1) with
  | none => none
  | some m => m.levels.find? (fun l => decide (l.isvsvn ≤ t0.toNat))

def upToDate (l : TcbLevelF) : Bool := l.status == pcs_TcbComponentStatusUpToDate

/-- `checkTcbInfoTcbStatus` (with `readTcbInfoTcbStatus`) -/
def tcbStatusCheck (fx : Fixes) (doc : TcbInfoDoc) (tee : Bytes) (pcesvn : Nat) (comps : Bytes) : Outcome Unit :=
  match getMatchingTcbLevel comps pcesvn tee doc.levels with
  | .err e => .err e
  | .panic => .panic
  | .ok none => .err "no matching TCB level"
  | .ok (some platform) =>
    match tee[0]?, tee[1]? with
    | some t0, some t1 =>
      if t1 > 0 then
        match getMatchingModuleLevel doc.identities t0 t1 with
        | none => .err "no matching TDX module level"
        | some m =>
          if fx.f4 && !upToDate platform then .err "platform TCB status"
          else if upToDate m then .ok () else .err "TDX module TCB status"
      else if upToDate platform then .ok () else .err "platform TCB status"
    | _, _ => .panic

def applyMask (mask v : Bytes) : Bytes := List.zipWith (fun a b => a &&& b) mask v

/-- `strings.EqualFold` on the hex strings involved: ASCII case folding -/
def lowerAscii (c : Char) : Char := if 'A' ≤ c ∧ c ≤ 'Z' then Char.ofNat (c.toNat + 32) else c

/- One side is always the PCK certificate's FMSPC, lower-case hex digits: none of them has a non-ASCII fold partner, so
   Unicode simple folding and ASCII folding decide the same.  (Character-wise, so that the kernel can evaluate it.) -/
def foldEq (a b : String) : Bool := a.toList.map lowerAscii == b.toList.map lowerAscii

/-- `verifyTdQuoteBody` -/
def tdBodyCheck (fx : Fixes) (doc : TcbInfoDoc) (t : TdQuoteBody) (ext : PckExt.PckExtensions) : Outcome Unit := do
  runChecks [
    (foldEq ext.fmspc doc.fmspc, "fmspc"),
    (ext.pceid == doc.pceId, "pceid"),
    (doc.modMrsigner == t.mrSignerSeam, "mrsignerseam"),
    (doc.modMask.length == t.seamAttributes.length, "seam attributes mask size"),
    (doc.modAttributes == applyMask doc.modMask t.seamAttributes, "seam attributes")]
  tcbStatusCheck fx doc t.teeTcbSvn ext.tcb.pcesvn ext.tcb.comps

/-- `readQeTcbStatus` + `checkQeTcbStatus` -/
def qeStatusCheck (levels : List TcbLevelF) (isvsvn : Nat) : Outcome Unit :=
  match levels.find? (fun l => decide (l.isvsvn ≤ isvsvn)) with
  | none => .err "no matching QE TCB level"
  | some l => if upToDate l then .ok () else .err "QE TCB status"

/-- `verifyQeReport` -/
def qeReportCheck (doc : QeIdDoc) (r : EnclaveReport) : Outcome Unit := do
  runChecks [
    (doc.miscselectMask.length == 4, "miscselect mask size"),
    (doc.miscselect.length == 4, "miscselect size"),
    (le32 doc.miscselect == (r.miscSelect &&& le32 doc.miscselectMask), "miscselect"),
    (doc.attributesMask.length == r.attributes.length, "attributes mask size"),
    (doc.attributes == applyMask doc.attributesMask r.attributes, "attributes"),
    (doc.mrsigner == r.mrSigner, "mrsigner"),
    (r.isvProdId == doc.isvProdId, "isvprodid")]
  qeStatusCheck doc.levels r.isvSvn

/-! ### signatures (`verifyQuote`) -/

/-- header ‖ body as re-serialised by `getHeaderAndTdQuoteBodyInAbiBytes` -/
def signedMessage (q : QuoteV4) : Outcome Bytes := do
  let h ← headerToAbiBytes q.header
  let t ← tdQuoteBodyToAbiBytes q.tdQuoteBody
  pure (h ++ t)

def qeCertData (q : QuoteV4) : Option QeReportCertData :=
  (q.signedData.bind (·.certificationData)).bind (·.qeReportCertData)

/-- the three links of the signature chain, in code order -/
def verifyQuoteLinks (C : Crypto) (q : QuoteV4) (leaf : Nat) : Outcome Unit := do
  let sd := q.signedData.getD default
  let qc := (qeCertData q).getD default
  let key := sd.ecdsaAttestationKey
  runChecks [(key.length == verify_pubKeySize, "attestation key size"), (C.onCurve key, "attestation key not on curve"),
             (signatureToDerOk sd.signature, "quote signature size")]
  let msg ← signedMessage q
  runChecks [(C.verifyRaw key msg sd.signature, "quote signature")]
  let rep ← enclaveReportToAbiBytes qc.qeReport
  runChecks [(signatureToDerOk qc.qeReportSignature, "QE report signature size"),
             (C.verifyCert leaf rep qc.qeReportSignature, "QE report signature")]
  let reportData := (qc.qeReport.getD default).reportData
  let auth := (qc.qeAuthData.getD default).data
  let h := C.sha256 (key ++ auth)
  -- `make([]byte, len(reportData) - len(hash))` panics when the report data are shorter than the hash
  if reportData.length < h.length then .panic
  else runChecks [(h ++ zeros (reportData.length - h.length) == reportData, "report data hash binding")]

/-! ### the call -/

structure Result where
  verdict : Outcome Unit
  urls : List String
  nowAfter : Option TimeSet        -- Options.Now as the caller finds it afterwards

def extractCa (leaf : CertF) : Outcome String :=
  if leaf.issuerCN == verify_platformIssuer then .ok verify_platformIssuerID
  else if leaf.issuerCN == verify_processorIssuer then .ok verify_processorIssuerID
  else .err "PCK issuer CA unknown"

/-- the collateral part of `verifyEvidenceV4`: `verifyCollateral`, `verifyTCBinfo`, `verifyQeIdentity` -/
def collateralStage (C : Crypto) (w : World) (o : Opts) (T : TimeSet) (col : Option Collateral) : Outcome Unit :=
  if o.getCollateral then
    match col with
    | none => .err "collateral nil"
    | some c => runChecks (collateralChecks w o T col ++ tcbInfoChecks C w o T c ++ qeIdentityChecks C w o T c)
  else .ok ()

/-- the collateral-driven part of `verifyQuote`: `verifyTdQuoteBody`, `verifyQeReport` -/
def tcbStage (fx : Fixes) (q : QuoteV4) (ext : PckExt.PckExtensions) (col : Option Collateral) : Outcome Unit :=
  match col with
  | none => .ok ()
  | some c =>
    tdBodyCheck fx c.tcb (q.tdQuoteBody.getD default) ext >>= fun _ =>
    qeReportCheck c.qe (((qeCertData q).getD default).qeReport.getD default)

/-- `verifyEvidenceV4` on prepared state -/
def verifyEvidence (fx : Fixes) (C : Crypto) (w : World) (q : QuoteV4) (o : Opts) (T : TimeSet) (ch : Chain)
    (ext : PckExt.PckExtensions) (col : Option Collateral) : Outcome Unit :=
  runChecks (((q.header.getD default).teeType == abi_TeeTDX, "tee type") :: chainChecks w ch o T col) >>= fun _ =>
  collateralStage C w o T col >>= fun _ =>
  verifyQuoteLinks C q ch.leaf >>= fun _ =>
  tcbStage fx q ext col

/-- the fetch part of `tdxQuoteV4`: nothing without `GetCollateral`, otherwise `obtainCollateral` for the leaf's FMSPC and CA -/
def fetchStage (fx : Fixes) (w : World) (o : Opts) (ch : Chain) (ext : PckExt.PckExtensions) : List String × Outcome (Option Collateral) :=
  if o.getCollateral then
    match extractCa (cert w ch.leaf) with
    | .err e => ([], .err e)
    | .panic => ([], .panic)
    | .ok ca =>
      ((obtainCollateral fx w ext.fmspc ca o.checkRevocations).1,
       match (obtainCollateral fx w ext.fmspc ca o.checkRevocations).2 with
       | .ok c => .ok (some c)
       | .err e => .err e
       | .panic => .panic)
  else ([], .ok none)

/-- `verify.TdxQuote(quote, options)` for a `*pb.QuoteV4` (`none` = typed nil pointer) -/
def tdxQuote (fx : Fixes) (C : Crypto) (w : World) (q : Option QuoteV4) (o : Opts) : Result :=
  let keep : Result := { verdict := .ok (), urls := [], nowAfter := o.now }
  -- the log statements dereference quote.Header before the structural check (finding F2)
  if !fx.f2 && (q.bind (·.header)).isNone then { keep with verdict := .panic } else
  match q with
  | none => { keep with verdict := .err "quote nil" }
  | some q =>
  match checkQuoteV4 (some q) with
  | .err e => { keep with verdict := .err e }
  | .panic => { keep with verdict := .panic }
  | .ok _ =>
  match extractChain w.chainPem with
  | .err e => { keep with verdict := .err e }
  | .panic => { keep with verdict := .panic }
  | .ok ch =>
  match PckExt.pckCertificateExtensions (cert w ch.leaf).pck with
  | .err e => { keep with verdict := .err e }
  | .panic => { keep with verdict := .panic }
  | .ok ext =>
  match (fetchStage fx w o ch ext).2 with
  | .err e => { keep with verdict := .err e, urls := (fetchStage fx w o ch ext).1 }
  | .panic => { keep with verdict := .panic, urls := (fetchStage fx w o ch ext).1 }
  | .ok col =>
    { verdict := verifyEvidence fx C w q o (o.now.getD (defaultTimeSet w.clock)) ch ext col
      urls := (fetchStage fx w o ch ext).1
      nowAfter := if fx.f9 then o.now else some (o.now.getD (defaultTimeSet w.clock)) }

/-! ### `SupportedTcbLevelsFromCollateral` (level reporting API) on the state a call left behind -/

/-- returns `ok (platformOrModuleLevel, qeLevel)` or an error when no level matches (repaired F5);
    with `f5 = false` the pinned tree's swallowed errors: empty levels and success. -/
def supportedTcbLevels (f5 : Bool) (fx : Fixes) (doc : TcbInfoDoc) (qe : QeIdDoc) (tee : Bytes) (pcesvn : Nat) (comps : Bytes)
    (isvsvn : Nat) : Outcome (TcbLevelF × TcbLevelF) :=
  let tcb : Outcome TcbLevelF :=
    match getMatchingTcbLevel comps pcesvn tee doc.levels with
    | .err e => .err e
    | .panic => .panic
    | .ok none => .err "no matching TCB level"
    | .ok (some platform) =>
      match tee[0]?, tee[1]? with
      | some t0, some t1 =>
        if t1 > 0 then
          match getMatchingModuleLevel doc.identities t0 t1 with
          | none => .err "no matching TDX module level"
          | some m => .ok m
        else .ok platform
      | _, _ => .panic
  let qel : Outcome TcbLevelF :=
    match qe.levels.find? (fun l => decide (l.isvsvn ≤ isvsvn)) with
    | none => .err "no matching QE TCB level"
    | some l => .ok l
  let _ := fx
  match tcb, qel with
  | .panic, _ => .panic
  | _, .panic => .panic
  | .ok a, .ok b => .ok (a, b)
  | .ok a, .err e => if f5 then .err e else .ok (a, default)
  | .err e, .ok b => if f5 then .err e else .ok (default, b)
  | .err e, .err _ => if f5 then .err e else .ok (default, default)


/-- what `tdxQuoteV4` leaves in the hidden fields of the options (`none`: it returned before storing anything) -/
def stateAfter (fx : Fixes) (w : World) (q : Option QuoteV4) (o : Opts) : Option (Option Collateral × PckExt.PckExtensions) :=
  if !fx.f2 && (q.bind (·.header)).isNone then none else
  match q with
  | none => none
  | some q =>
  match checkQuoteV4 (some q) with
  | .ok _ =>
    match extractChain w.chainPem with
    | .ok ch =>
      match PckExt.pckCertificateExtensions (cert w ch.leaf).pck with
      | .ok ext =>
        match (fetchStage fx w o ch ext).2 with
        | .ok col => some (col, ext)
        | _ => none
      | _ => none
    | _ => none
  | _ => none

/-- `verify.SupportedTcbLevelsFromCollateral(quote, options)` called right after `verify.TdxQuote(quote, options)`
    on the same options value -/
def supportedLevelsCall (f5 : Bool) (fx : Fixes) (w : World) (q : Option QuoteV4) (o : Opts) : Outcome (TcbLevelF × TcbLevelF) :=
  match stateAfter fx w q o with
  | none => .err "collateral nil"
  | some (col, ext) =>
    let T := o.now.getD (defaultTimeSet w.clock)
    match runChecks (collateralChecks w o T col) with
    | .err e => .err e
    | .panic => .panic
    | .ok _ =>
      match col, q with
      | some c, some q =>
        supportedTcbLevels f5 fx c.tcb c.qe (q.tdQuoteBody.getD default).teeTcbSvn ext.tcb.pcesvn ext.tcb.comps
          (((qeCertData q).getD default).qeReport.getD default).isvSvn
      | _, _ => .err "collateral nil"

end Tdx.Verify
