/-
  TdxModel.Client — client/client.go: `getReport`, `getRawQuoteViaDevice`, `getRawQuoteViaProvider`,
  `GetRawQuote`, `GetQuote` over *device scripts* (C15).

  A device script fixes what the guest device does on each of the two ioctls, whatever it is asked:
  whether the call errors, the result code, and what it leaves in the request structure.  The model
  returns the caller-visible result *and* the trace of requests the device observed.

  `getRawQuoteViaDevice` models the property-satisfying behaviour (OutLen bounds checked on the
  success path); `getRawQuoteViaDeviceUnfixed` is the pinned tree's control flow (finding F8).
-/
import TdxModel.Basic
import TdxModel.Generated.Consts

namespace Tdx.Client
open Tdx

structure DevScript where
  repErr  : Bool          -- report ioctl returns a Go error
  repRes  : Nat           -- report ioctl result code
  report  : Bytes         -- TdReport left in the request (TdReportSize bytes)
  qErr    : Bool          -- quote ioctl returns a Go error
  qRes    : Nat           -- quote ioctl result code
  status  : Nat           -- TdxQuoteHdr.Status after the call (uint64)
  outLen  : Nat           -- TdxQuoteHdr.OutLen after the call (uint32)
  buf     : Option Bytes  -- `some b`: device overwrote Data with b (ReqBufSize bytes); `none`: left as sent
deriving Repr

/-- what the device saw in the quote request -/
structure QuoteReq where
  version : Nat
  status  : Nat
  inLen   : Nat
  outLen  : Nat
  length  : Nat
  data    : Bytes
deriving Repr, DecidableEq

structure Trace where
  reportReq : Option Bytes    := none   -- ReportData of the report request
  quoteReq  : Option QuoteReq := none
deriving Repr, DecidableEq

def reqBuf : Nat := Gen.client_linuxabi_ReqBufSize
def repSize : Nat := Gen.client_linuxabi_TdReportSize

/-- `copy(tdxHdr.Data[:], tdReport[:TdReportSize])` into the zeroed ReqBufSize array -/
def dataWithReport (report : Bytes) : Bytes :=
  let r := report.take repSize
  r ++ zeros (reqBuf - r.length)

def attestSuccess : Nat := Gen.client_linuxabi_TdxAttestSuccess
def inFlight : Nat := Gen.client_linuxabi_GetQuoteInFlight
def unavailable : Nat := Gen.client_linuxabi_GetQuoteServiceUnavailable

/-- `getReport`: the error/result interpretation of the first ioctl -/
def getReport (s : DevScript) : Outcome Bytes :=
  if s.repErr then .err "ioctl"
  else if s.repRes ≠ attestSuccess then .err "report-result"
  else .ok s.report

def quoteReqOf (report : Bytes) : QuoteReq :=
  { version := 1, status := 0, inLen := repSize, outLen := 0, length := reqBuf, data := dataWithReport report }

/-- Data as the caller finds it after the quote ioctl -/
def dataAfter (s : DevScript) (report : Bytes) : Bytes :=
  match s.buf with
  | some b => b
  | none => dataWithReport report

/-- what the device observed: the report request always, the quote request iff `getReport` succeeded -/
def trace (s : DevScript) (rd : Bytes) : Trace :=
  { reportReq := some rd
    quoteReq := match getReport s with
      | .ok report => some (quoteReqOf report)
      | _ => none }

/-- property-satisfying behaviour of `getRawQuoteViaDevice` -/
def result (s : DevScript) : Outcome Bytes :=
  match getReport s with
  | .ok report =>
    if s.qErr then .err "ioctl"
    else if s.qRes ≠ attestSuccess then .err "quote-result"
    else if s.status ≠ 0 then
      (if s.status = inFlight then .err "busy"
       else if s.status = unavailable then .err "unsupported"
       else .err "status")
    else if s.outLen = 0 ∨ s.outLen > reqBuf then .err "outlen"
    else slice (dataAfter s report) 0 s.outLen
  | .err e => .err e
  | .panic => .panic

def getRawQuoteViaDevice (s : DevScript) (rd : Bytes) : Outcome Bytes × Trace := (result s, trace s rd)

/-- the pinned tree: OutLen is only examined inside the `Status != 0` branch (finding F8) -/
def resultUnfixed (s : DevScript) : Outcome Bytes :=
  match getReport s with
  | .ok report =>
    if s.qErr then .err "ioctl"
    else if s.qRes ≠ attestSuccess then .err "quote-result"
    else if s.status ≠ 0 then
      (if s.status = inFlight then .err "busy"
       else if s.status = unavailable then .err "unsupported"
       else if s.outLen = 0 ∨ s.outLen > reqBuf then .err "outlen"
       else .err "status")
    else slice (dataAfter s report) 0 s.outLen
  | .err e => .err e
  | .panic => .panic

/-! ### quote provider -/

structure ProvScript where
  supported : Bool           -- IsSupported() == nil
  bytes     : Option Bytes   -- what GetRawQuote returns (nil or bytes) …
  err       : Bool           -- … together with an error or not
deriving Repr

inductive ProvResult where
  | verbatim (bytes : Option Bytes) (err : Bool)   -- provider's pair returned as is
  | devicePath                                      -- fallbackToDeviceForRawQuote taken
deriving Repr, DecidableEq

def getRawQuoteViaProvider (p : ProvScript) : ProvResult :=
  if p.supported then .verbatim p.bytes p.err else .devicePath

end Tdx.Client
