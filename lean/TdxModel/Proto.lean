/-
  TdxModel.Proto — the line protocol between the Go harness and the model driver.

  One case per line: `<OP> key=value key=value …`.  Values: decimal naturals, hex byte strings,
  `@z:<len>` (zeros), `@pat:<len>:<a>:<c>` (byte i = (a*i+c) mod 256), comma-separated lists.
  A key the model asks for and the harness did not supply is a *driver error* for that case
  (never defaulted).
-/
import TdxModel.Basic

namespace Tdx.Proto
open Tdx

structure Line where
  op : String
  kv : List (String × String)
  /-- byte strings defined by earlier `DEF id=… b=…` lines, referred to as `@r:<id>[:modifier…]` -/
  blobs : List (Nat × Bytes) := []

def splitKV (tok : String) : Option (String × String) :=
  match tok.splitOn "=" with
  | [] => none
  | [_] => none
  | k :: rest => some (k, String.intercalate "=" rest)

def parseLine (s : String) : Line :=
  let toks := (s.trimAscii.toString.splitOn " ").filter (· ≠ "")
  match toks with
  | [] => { op := "", kv := [] }
  | op :: rest => { op := op, kv := rest.filterMap splitKV }

def Line.get? (l : Line) (k : String) : Option String := (l.kv.find? (·.1 == k)).map (·.2)

abbrev P := Except String

def Line.str (l : Line) (k : String) : P String :=
  match l.get? k with
  | some v => .ok v
  | none => .error s!"missing key {k}"

def Line.nat (l : Line) (k : String) : P Nat := do
  let v ← l.str k
  match v.toNat? with
  | some n => .ok n
  | none => .error s!"bad nat {k}={v}"

def Line.int (l : Line) (k : String) : P Int := do
  let v ← l.str k
  match v.toInt? with
  | some n => .ok n
  | none => .error s!"bad int {k}={v}"

def Line.bool (l : Line) (k : String) : P Bool := do
  let v ← l.str k
  if v == "1" || v == "true" then .ok true
  else if v == "0" || v == "false" then .ok false
  else .error s!"bad bool {k}={v}"

def patBytes (len a c : Nat) : Bytes :=
  (List.range len).map fun i => UInt8.ofNat ((a * i + c) % 256)

def parseBytes (v : String) : P Bytes :=
  if v.startsWith "@z:" then
    match (v.drop 3).toString.toNat? with
    | some n => .ok (zeros n)
    | none => .error s!"bad zeros {v}"
  else if v.startsWith "@pat:" then
    match ((v.drop 5).toString.splitOn ":").map String.toNat? with
    | [some n, some a, some c] => .ok (patBytes n a c)
    | _ => .error s!"bad pattern {v}"
  else if v == "-" then .ok []
  else match unhex v with
    | some b => .ok b
    | none => .error s!"bad hex {v.take 20}"

/-- set bytes at offset `off` (Go: `copy(b[off:], patch)`, truncated at the end of `b`) -/
def patch (b : Bytes) (off : Nat) (pt : Bytes) : Bytes :=
  b.take off ++ (pt.take (b.length - off)) ++ b.drop (off + pt.length)

def applyMod (b : Bytes) (m : String) : P Bytes :=
  if m.startsWith "t" then match (m.drop 1).toString.toNat? with
    | some n => .ok (b.take n)
    | none => .error "bad take"
  else if m.startsWith "d" then match (m.drop 1).toString.toNat? with
    | some n => .ok (b.drop n)
    | none => .error "bad drop"
  else if m.startsWith "a" then match unhex (m.drop 1).toString with
    | some x => .ok (b ++ x)
    | none => .error "bad append"
  else if m.startsWith "p" then match (m.drop 1).toString.splitOn "." with
    | [o, h] => match o.toNat?, unhex h with
      | some off, some x => .ok (patch b off x)
      | _, _ => .error "bad patch"
    | _ => .error "bad patch"
  else .error s!"bad modifier {m}"

/-- value syntax incl. references to defined blobs: `@r:<id>:t<n>:p<off>.<hex>:a<hex>:d<n>` -/
def Line.bytesOf (l : Line) (v : String) : P Bytes :=
  if v.startsWith "@r:" then
    match (v.drop 3).toString.splitOn ":" with
    | id :: mods => match id.toNat? with
      | some i => match l.blobs.find? (·.1 == i) with
        | some (_, b) => mods.foldlM applyMod b
        | none => .error s!"undefined blob {i}"
      | none => .error "bad blob id"
    | [] => .error "bad ref"
  else parseBytes v

def Line.bytes (l : Line) (k : String) : P Bytes := do l.bytesOf (← l.str k)

/-- `-` = absent (nil), otherwise bytes (possibly empty via `e`) -/
def Line.optBytes (l : Line) (k : String) : P (Option Bytes) := do
  let v ← l.str k
  if v == "nil" then .ok none
  else if v == "e" then .ok (some [])
  else (some <$> parseBytes v)

def Line.bytesList (l : Line) (k : String) : P (List Bytes) := do
  let v ← l.str k
  if v == "-" then .ok []
  else (v.splitOn ",").mapM fun s => if s == "e" then .ok [] else parseBytes s

def Line.natList (l : Line) (k : String) : P (List Nat) := do
  let v ← l.str k
  if v == "-" then .ok []
  else (v.splitOn ",").mapM fun s => match s.toNat? with
    | some n => .ok n
    | none => .error s!"bad nat list {k}"

/-- FNV-1a, 64 bit: the fingerprint both sides print for large byte strings -/
def fnv1a (b : Bytes) : UInt64 :=
  b.foldl (fun h x => (h ^^^ x.toUInt64) * 1099511628211) 14695981039346656037

def fp (b : Bytes) : String := s!"{b.length}:{(fnv1a b).toNat}"

end Tdx.Proto
