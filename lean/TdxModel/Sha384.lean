/-
  TdxModel.Sha384 — an executable SHA-384 (FIPS 180-4), used ONLY by the line-protocol driver to
  instantiate the `Rtmr.Hash` parameter so that the model predicts the very register bytes the Go
  side computes with `crypto/sha512`.  No theorem depends on this file being SHA-384: the theorems
  of C17 quantify over every `Hash`.  Its agreement with `crypto/sha512.Sum384` is re-validated by
  every correspondence run (each register fingerprint and each event-log digest is compared).

  The 80 round constants and the 8 initial values are *computed* from their definition (first 64
  bits of the fractional parts of the cube roots of the first 80 primes / of the square roots of
  the 9th–16th primes) instead of being typed in.

  Core Lean only.
-/
import TdxModel.Basic

namespace Tdx.Sha384

/-- ⌊ᵏ√n⌋ by bisection on `[0, 2^bits)` -/
def iroot (k n bits : Nat) : Nat := Id.run do
  let mut r := 0
  for j in [0:bits] do
    let b := bits - 1 - j
    let c := r + 2 ^ b
    if c ^ k ≤ n then r := c
  return r

def isPrime (n : Nat) : Bool :=
  n ≥ 2 && (List.range n).all fun d => d < 2 || d * d > n || n % d != 0

/-- the first 80 primes (2 … 409) -/
def primes : Array Nat := ((List.range 410).filter isPrime).toArray

/-- K[t] = ⌊frac(∛p_t)·2⁶⁴⌋ = ⌊∛(p_t·2¹⁹²)⌋ mod 2⁶⁴ -/
def K : Array UInt64 := primes.map fun p => UInt64.ofNat (iroot 3 (p * 2 ^ 192) 70 % 2 ^ 64)

/-- SHA-384 initial hash value: ⌊frac(√p)·2⁶⁴⌋ for the 9th … 16th primes -/
def H0 : Array UInt64 := (primes.extract 8 16).map fun p => UInt64.ofNat (iroot 2 (p * 2 ^ 128) 70 % 2 ^ 64)

@[inline] def rotr (x : UInt64) (n : UInt64) : UInt64 := (x >>> n) ||| (x <<< (64 - n))

def pad (msg : Bytes) : Array UInt8 :=
  let l := msg.length
  let zerosNeeded := (128 - (l + 1 + 16) % 128) % 128
  let bits := l * 8
  let lenBytes := (List.range 16).map fun i => UInt8.ofNat (bits / 2 ^ (8 * (15 - i)) % 256)
  (msg ++ [0x80] ++ List.replicate zerosNeeded 0 ++ lenBytes).toArray

def be64At (a : Array UInt8) (off : Nat) : UInt64 := Id.run do
  let mut w : UInt64 := 0
  for i in [0:8] do
    w := (w <<< 8) ||| (a[off + i]!).toUInt64
  return w

def compress (h : Array UInt64) (blk : Array UInt8) (off : Nat) : Array UInt64 := Id.run do
  let mut w : Array UInt64 := Array.mkEmpty 80
  for t in [0:16] do
    w := w.push (be64At blk (off + 8 * t))
  for t in [16:80] do
    let w15 := w[t - 15]!
    let w2 := w[t - 2]!
    let s0 := rotr w15 1 ^^^ rotr w15 8 ^^^ (w15 >>> 7)
    let s1 := rotr w2 19 ^^^ rotr w2 61 ^^^ (w2 >>> 6)
    w := w.push (w[t - 16]! + s0 + w[t - 7]! + s1)
  let mut a := h[0]!
  let mut b := h[1]!
  let mut c := h[2]!
  let mut d := h[3]!
  let mut e := h[4]!
  let mut f := h[5]!
  let mut g := h[6]!
  let mut hh := h[7]!
  for t in [0:80] do
    let S1 := rotr e 14 ^^^ rotr e 18 ^^^ rotr e 41
    let ch := (e &&& f) ^^^ ((~~~ e) &&& g)
    let t1 := hh + S1 + ch + K[t]! + w[t]!
    let S0 := rotr a 28 ^^^ rotr a 34 ^^^ rotr a 39
    let maj := (a &&& b) ^^^ (a &&& c) ^^^ (b &&& c)
    let t2 := S0 + maj
    hh := g; g := f; f := e; e := d + t1
    d := c; c := b; b := a; a := t1 + t2
  return #[h[0]! + a, h[1]! + b, h[2]! + c, h[3]! + d, h[4]! + e, h[5]! + f, h[6]! + g, h[7]! + hh]

def be64Bytes (w : UInt64) : Bytes :=
  (List.range 8).map fun i => (w >>> (UInt64.ofNat (8 * (7 - i)))).toUInt8

/-- SHA-384 of a byte string -/
def sum (msg : Bytes) : Bytes := Id.run do
  let p := pad msg
  let mut h := H0
  for i in [0:p.size / 128] do
    h := compress h p (128 * i)
  return (h.extract 0 6).toList.flatMap be64Bytes

end Tdx.Sha384
