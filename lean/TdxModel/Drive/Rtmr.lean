import TdxModel.Rtmr
import TdxModel.Sha384
import TdxModel.Proto

/-
  Line protocol of C17:

    C17 pre=<entries> init=<regs> reqs=<requests>

    entries   `-` or comma-separated `<name>/<d|f>/<index>`; index: `x` unreadable, `e` empty, else hex
    regs      `-` (all zero) or four comma-separated byte strings (registers 0–3 before the history)
    requests  `;`-separated, `d/<index>/<digest>` or `l/<index>/<hashAlgo>/<log>`

  answer: `r=<ok|err|panic>,… t=<ops of request 1>|<ops of request 2>|… regs=<fp r0>,<fp r1>,<fp r2>,<fp r3>`
-/
namespace Tdx.Drive.C17
open Tdx Tdx.Proto Tdx.Rtmr

/-- pad / cut to 48 bytes: the identity on a correct SHA-384, and makes the length law trivial -/
def fit48 (b : Bytes) : Bytes := (b ++ zeros digestLen).take digestLen

/-- the instantiation of the hash parameter used by the executable: real SHA-384 -/
def realHash : Hash where
  sha384 b := fit48 (Sha384.sum b)
  len b := by simp [fit48, zeros, digestLen]

def parseEntry (s : String) : P Entry :=
  match s.splitOn "/" with
  | [nm, kind, idx] => do
    let isDir ← (if kind == "d" then pure true else if kind == "f" then pure false else .error s!"bad kind {kind}")
    let index ← (if idx == "x" then pure none else if idx == "e" then pure (some []) else some <$> parseBytes idx)
    pure { name := .pre nm, isDir := isDir, index := index }
  | _ => .error s!"bad entry {s}"

def parseReq (s : String) : P Req :=
  match s.splitOn "/" with
  | ["d", i, d] => do
    let some i := i.toInt? | .error s!"bad index {i}"
    pure (.digest i (← parseBytes d))
  | ["l", i, a, l] => do
    let some i := i.toInt? | .error s!"bad index {i}"
    let some a := a.toNat? | .error s!"bad algo {a}"
    pure (.eventLog i a (← parseBytes l))
  | _ => .error s!"bad request {s.take 40}"

def showAttr : Attr → String
  | .index => "index"
  | .digest => "digest"

def showOp : Op → String
  | .readDir => "rd"
  | .readFile e a => s!"rf:{e.render}/{showAttr a}"
  | .mkdirTemp i => s!"mk:rtmr{i}-"
  | .writeFile e .index v => s!"wf:{e.render}/index={if v.isEmpty then "-" else hexOf v}"
  | .writeFile e .digest d => s!"wf:{e.render}/digest={fp d}"

def showTrace (tr : List Op) : String :=
  if tr.isEmpty then "-" else ",".intercalate (tr.map showOp)

def showOut : Outcome Unit → String
  | .ok _ => "ok"
  | .err _ => "err"
  | .panic => "panic"

def run (l : Line) : P String := do
  let pre ← l.str "pre"
  let entries ← (if pre == "-" then pure [] else (pre.splitOn ",").mapM parseEntry)
  let initS ← l.str "init"
  let regs0 ← (if initS == "-" then pure [] else l.bytesList "init")
  let reqs ← ((← l.str "reqs").splitOn ";").mapM parseReq
  let t0 : Tsm := {
    entries := entries.foldl (fun es e => ins e es) []
    regs := fun k => match regs0[k]? with | some r => r | none => zero48
    next := 0 }
  let (t, outs, traces) := reqs.foldl (fun (acc : Tsm × List String × List String) r =>
      let s := step realHash acc.1 r
      (s.tsm, showOut s.out :: acc.2.1, showTrace s.trace :: acc.2.2)) (t0, [], [])
  let regs := ",".intercalate ((List.range 4).map fun k => fp (t.regs k))
  pure s!"r={",".intercalate outs.reverse} t={"|".intercalate traces.reverse} regs={regs}"

end Tdx.Drive.C17

namespace Tdx.Drive
def c17 (l : Proto.Line) : Proto.P String := C17.run l
end Tdx.Drive
