import TdxModel.Ccel
import TdxModel.Drive.Msg

namespace Tdx.Drive
open Tdx Tdx.Proto Tdx.Abi Tdx.Ccel

def gate (s : String) : P (Outcome Unit) :=
  if s == "ok" then pure (.ok ()) else if s == "err" then pure (.err "gate") else if s == "panic" then pure .panic else .error s!"bad gate {s}"

def showBank (b : Bank) : String :=
  if b.isEmpty then "-" else String.intercalate "," (b.map fun (i, d) => s!"{i}:{fp d}")

/-- `C18.bank q=…`: rtmr.GetRtmrsFromTdQuote -/
def c18bank (l : Line) : P String := do
  let q ← parseQuote l
  match getRtmrs true q with
  | .ok b => pure s!"ok {showBank b}"
  | .err _ => pure "err"
  | .panic => pure "panic"

/-- the pair `ccel.ReplayAndExtract` returns for the bank of the quote, as the harness observed it by calling it directly -/
def replayRet (s : String) : P (Outcome (GoRet Unit)) :=
  if s == "ok" then pure (.ok ⟨some (), none⟩)
  else if s == "err" then pure (.ok ⟨none, some "replay"⟩)
  else if s == "state+err" then pure (.ok ⟨some (), some "extract"⟩)
  else if s == "nil" then pure (.ok ⟨none, none⟩)
  else if s == "panic" then pure .panic
  else .error s!"bad replay outcome {s}"

/-- `C18.parse v=<gate> val=<gate> rp=<replay outcome for the bank of the quote> q=…` -/
def c18parse (l : Line) : P String := do
  let q ← parseQuote l
  let v ← gate (← l.str "v")
  let va ← gate (← l.str "val")
  let rp ← replayRet (← l.str "rp")
  match parseCcel v va q (fun _ => rp) with
  | .ok ⟨some _, none⟩ => pure "state"
  | .ok ⟨some _, some _⟩ => pure "state+err"
  | .ok ⟨none, some _⟩ => pure "err"
  | .ok ⟨none, none⟩ => pure "nil"
  | .err _ => pure "err"
  | .panic => pure "panic"

end Tdx.Drive
