/- Encoding of a pb.QuoteV4 (with optional sub-messages) on a protocol line, and the canonical dump. -/
import TdxModel.Abi
import TdxModel.Proto

namespace Tdx.Drive
open Tdx Tdx.Proto Tdx.Abi

def fieldBytes (s : String) : P Bytes := if s == "-" then .ok [] else parseBytes s
def fieldNat (s : String) : P Nat := match s.toNat? with
  | some n => .ok n
  | none => .error s!"bad nat {s}"

/-- `k=nil` → none; otherwise the comma-separated fields -/
def _root_.Tdx.Proto.Line.fields? (l : Line) (k : String) : P (Option (List String)) := do
  let v ← l.str k
  if v == "nil" then pure none else pure (some (v.splitOn ","))

def parseHeader (l : Line) : P (Option Header) := do
  match ← l.fields? "hdr" with
  | none => pure none
  | some [v, k, t, pce, qe, ven, ud] =>
    pure (some ⟨← fieldNat v, ← fieldNat k, ← fieldNat t, ← fieldBytes pce, ← fieldBytes qe, ← fieldBytes ven, ← fieldBytes ud⟩)
  | some _ => .error "hdr arity"

def parseBody (l : Line) : P (Option TdQuoteBody) := do
  match ← l.fields? "td" with
  | none => pure none
  | some [a, b, c, d, e, f, g, h, i, j, rd] =>
    let rt ← l.bytesList "rt"
    pure (some ⟨← fieldBytes a, ← fieldBytes b, ← fieldBytes c, ← fieldBytes d, ← fieldBytes e, ← fieldBytes f,
      ← fieldBytes g, ← fieldBytes h, ← fieldBytes i, ← fieldBytes j, rt, ← fieldBytes rd⟩)
  | some _ => .error "td arity"

def parseQeReport (l : Line) : P (Option EnclaveReport) := do
  match ← l.fields? "qr" with
  | none => pure none
  | some [cpu, misc, r1, at_, mre, r2, mrs, r3, prod, svn, r4, rd] =>
    pure (some ⟨← fieldBytes cpu, ← fieldNat misc, ← fieldBytes r1, ← fieldBytes at_, ← fieldBytes mre, ← fieldBytes r2,
      ← fieldBytes mrs, ← fieldBytes r3, ← fieldNat prod, ← fieldNat svn, ← fieldBytes r4, ← fieldBytes rd⟩)
  | some _ => .error "qr arity"

def parseAuth (l : Line) : P (Option QeAuthData) := do
  match ← l.fields? "au" with
  | none => pure none
  | some [n, d] => pure (some ⟨← fieldNat n, ← fieldBytes d⟩)
  | some _ => .error "au arity"

def parsePck (l : Line) : P (Option PckChainData) := do
  match ← l.fields? "pk" with
  | none => pure none
  | some [t, s, c] => pure (some ⟨← fieldNat t, ← fieldNat s, ← fieldBytes c⟩)
  | some _ => .error "pk arity"

def parseQc (l : Line) : P (Option QeReportCertData) := do
  match ← l.fields? "qc" with
  | none => pure none
  | some [sig] => pure (some ⟨← parseQeReport l, ← fieldBytes sig, ← parseAuth l, ← parsePck l⟩)
  | some _ => .error "qc arity"

def parseCd (l : Line) : P (Option CertificationData) := do
  match ← l.fields? "cd" with
  | none => pure none
  | some [t, s] => pure (some ⟨← fieldNat t, ← fieldNat s, ← parseQc l⟩)
  | some _ => .error "cd arity"

def parseSd (l : Line) : P (Option SignedData) := do
  match ← l.fields? "sd" with
  | none => pure none
  | some [sig, key] => pure (some ⟨← fieldBytes sig, ← fieldBytes key, ← parseCd l⟩)
  | some _ => .error "sd arity"

/-- `q=nil` (typed nil pointer) or `q=v4` followed by the sub-message tokens -/
def parseQuote (l : Line) : P (Option QuoteV4) := do
  let q ← l.str "q"
  if q == "nil" then pure none
  else pure (some ⟨← parseHeader l, ← parseBody l, ← l.nat "sds", ← parseSd l, ← l.bytes "x"⟩)

/-! canonical dump of a parsed quote: short fields in hex, long ones as fingerprints -/

def fx (b : Bytes) : String := if b.length ≤ 16 then (if b.isEmpty then "-" else hexOf b) else fp b

def dumpHeader (h : Header) : String :=
  s!"h={h.version},{h.attestationKeyType},{h.teeType},{fx h.pceSvn},{fx h.qeSvn},{fx h.qeVendorId},{fx h.userData}"

def dumpBody (t : TdQuoteBody) : String :=
  let rt := String.intercalate ";" (t.rtmrs.map fx)
  s!"t={fx t.teeTcbSvn},{fx t.mrSeam},{fx t.mrSignerSeam},{fx t.seamAttributes},{fx t.tdAttributes},{fx t.xfam},{fx t.mrTd},{fx t.mrConfigId},{fx t.mrOwner},{fx t.mrOwnerConfig},{fx t.reportData} rt={rt}"

def dumpReport (r : EnclaveReport) : String :=
  s!"qr={fx r.cpuSvn},{r.miscSelect},{fx r.reserved1},{fx r.attributes},{fx r.mrEnclave},{fx r.reserved2},{fx r.mrSigner},{fx r.reserved3},{r.isvProdId},{r.isvSvn},{fx r.reserved4},{fx r.reportData}"

def dumpQuote (q : QuoteV4) : String :=
  let h := match q.header with | some h => dumpHeader h | none => "h=nil"
  let t := match q.tdQuoteBody with | some t => dumpBody t | none => "t=nil"
  let sd := match q.signedData with
    | none => "sd=nil"
    | some s =>
      let cd := match s.certificationData with
        | none => "cd=nil"
        | some c =>
          let qc := match c.qeReportCertData with
            | none => "qc=nil"
            | some qc =>
              let r := match qc.qeReport with | some r => dumpReport r | none => "qr=nil"
              let a := match qc.qeAuthData with | some a => s!"au={a.parsedDataSize},{fx a.data}" | none => "au=nil"
              let p := match qc.pckChain with | some p => s!"pk={p.certificateDataType},{p.size},{fx p.pckCertChain}" | none => "pk=nil"
              s!"qc={fx qc.qeReportSignature} {r} {a} {p}"
          s!"cd={c.certificateDataType},{c.size} {qc}"
      s!"sd={fx s.signature},{fx s.ecdsaAttestationKey} {cd}"
  s!"{h} {t} sds={q.signedDataSize} {sd} x={fx q.extraBytes}"

end Tdx.Drive
