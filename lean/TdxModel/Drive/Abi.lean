import TdxModel.Drive.Msg

namespace Tdx.Drive
open Tdx Tdx.Proto Tdx.Abi

def showBytesOutcome : Outcome Bytes → String
  | .ok b => s!"ok {fp b}"
  | .err _ => "err"
  | .panic => "panic"

def showUnit : Outcome Unit → String
  | .ok _ => "ok"
  | .err _ => "err"
  | .panic => "panic"

/-- `C09.parse b=<hex>`: abi.QuoteToProto -/
def c09parse (l : Line) : P String := do
  let b ← l.bytes "b"
  match quoteToProto b with
  | .ok q => pure s!"ok {dumpQuote q}"
  | .err _ => pure "err"
  | .panic => pure "panic"

/-- `C09.ser q=…`: abi.QuoteToAbiBytes, CheckQuoteV4 and the three exported sub-serialisers -/
def c09ser (l : Line) : P String := do
  let q ← parseQuote l
  let chk := showUnit (checkQuoteV4 q)
  let ser := showBytesOutcome (quoteToAbiBytes q)
  let (h, t, r) := match q with
    | none => ("-", "-", "-")
    | some q =>
      (showBytesOutcome (headerToAbiBytes q.header), showBytesOutcome (tdQuoteBodyToAbiBytes q.tdQuoteBody),
       showBytesOutcome (enclaveReportToAbiBytes ((q.signedData.bind (·.certificationData)).bind (·.qeReportCertData) |>.bind (·.qeReport))))
  pure s!"check={chk} ser={ser} hdr={h} body={t} qer={r}"

end Tdx.Drive
