import TdxModel.Client
import TdxModel.Proto

namespace Tdx.Drive
open Tdx Tdx.Proto Tdx.Client

def showOutcomeBytes : Outcome Bytes → String
  | .ok b => s!"ok {fp b}"
  | .err _ => "err"
  | .panic => "panic"

def showTrace (t : Trace) : String :=
  let r := match t.reportReq with
    | some rd => s!"rrd={fp rd}"
    | none => "rrd=none"
  let q := match t.quoteReq with
    | some q => s!"q=v{q.version},s{q.status},i{q.inLen},o{q.outLen},l{q.length},d{fp q.data}"
    | none => "q=none"
  s!"{r} {q}"

def c15dev (l : Line) : P String := do
  let rd ← l.bytes "rd"
  let buf ← l.str "buf"
  let s : DevScript := {
    repErr := ← l.bool "reperr", repRes := ← l.nat "repres", report := ← l.bytes "rep",
    qErr := ← l.bool "qerr", qRes := ← l.nat "qres", status := ← l.nat "st", outLen := ← l.nat "out",
    buf := ← (if buf == "left" then pure none else some <$> parseBytes buf) }
  let (r, t) := getRawQuoteViaDevice s rd
  pure s!"{showOutcomeBytes r} {showTrace t}"

def c15prov (l : Line) : P String := do
  let b ← l.str "bytes"
  let p : ProvScript := { supported := ← l.bool "sup", bytes := ← (if b == "nil" then pure none else some <$> parseBytes b), err := ← l.bool "err" }
  match getRawQuoteViaProvider p with
  | .verbatim bytes err =>
    let bs := match bytes with | some x => fp x | none => "nil"
    pure s!"verbatim bytes={bs} err={if err then 1 else 0}"
  | .devicePath => pure "device-path"

end Tdx.Drive
