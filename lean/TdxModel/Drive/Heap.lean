import TdxModel.Heap
import TdxModel.Proto

namespace Tdx.Drive
open Tdx Tdx.Proto Tdx.Heap

/-- `C16.concat keylen=… keyspare=… auth=…`: does the key‖auth concatenation of verifyHash256 write behind the key?
    The heap: one message buffer holding the key followed by `keyspare` sentinel bytes, one buffer with the auth data. -/
def c16concat (l : Line) : P String := do
  let keylen ← l.nat "keylen"
  let spare ← l.nat "keyspare"
  let auth ← l.nat "auth"
  let h : Heap := ⟨[List.replicate keylen 7 ++ List.replicate spare 0xA5, List.replicate auth 1]⟩
  let key : Slice := ⟨0, 0, keylen, keylen + spare⟩
  let au : Slice := ⟨1, 0, auth, auth⟩
  let (h', _, _) := concatKeyAuth h key au
  pure (if h'.bufs[0]? == h.bufs[0]? && h'.bufs[1]? == h.bufs[1]? then "clean" else "dirty")

end Tdx.Drive
