/-
  Line-protocol driver for C13.

    C13 n=<number of extensions> exts=<oid>,<oid>,… sgx=<fact>

  `exts` are the dotted extension ids of `cert.Extensions` in order (`-` when there is none);
  `sgx` is what `encoding/asn1` makes of the value of the first extension whose id is the SGX
  extension OID: `none` (no such extension), `derr` (first TLV not framed), `T:<tree>` (tree, no
  bytes after it), `R:<tree>` (tree, bytes remain).  Tree syntax (no blanks):

    i<decimal>   INTEGER           o<hex>   OCTET STRING      d<a.b.c>  OBJECT IDENTIFIER
    e<decimal>   ENUMERATED        b1 / b0  BOOLEAN well formed / malformed
    [t,t,…]      SEQUENCE          {t,t,…}  SEQUENCE with non-TLV bytes after the listed elements
    x            anything else     !        primitive with content its universal type rejects
-/
import TdxModel.PckExt
import TdxModel.Proto

namespace Tdx.Drive
open Tdx Tdx.Proto Tdx.PckExt

namespace C13Parse

def isStop (c : Char) : Bool := c == ',' || c == ']' || c == '}'

def parseOid (s : String) : Option (List Nat) :=
  if s == "" then some [] else (s.splitOn ".").mapM String.toNat?

mutual
/-- one tree; returns the tree and the remaining characters -/
partial def tree : List Char → Except String (Asn1 × List Char)
  | [] => .error "tree: unexpected end"
  | '[' :: rest => do
    let (l, rest) ← elems rest ']' []
    pure (.seq l, rest)
  | '{' :: rest => do
    let (l, rest) ← elems rest '}' []
    pure (.seqJunk l, rest)
  | 'x' :: rest => pure (.other, rest)
  | '!' :: rest => pure (.bad, rest)
  | c :: rest =>
    let tok := String.ofList (rest.takeWhile (fun ch => !isStop ch))
    let rest' := rest.dropWhile (fun ch => !isStop ch)
    match c with
    | 'i' => match tok.toInt? with
      | some v => pure (.int v, rest')
      | none => .error s!"tree: bad int {tok}"
    | 'e' => match tok.toInt? with
      | some v => pure (.enum v, rest')
      | none => .error s!"tree: bad enum {tok}"
    | 'o' => match (if tok == "" then some [] else unhex tok) with
      | some b => pure (.octets b, rest')
      | none => .error s!"tree: bad hex {tok}"
    | 'd' => match parseOid tok with
      | some o => pure (.oid o, rest')
      | none => .error s!"tree: bad oid {tok}"
    | 'b' => if tok == "1" then pure (.bool true, rest') else if tok == "0" then pure (.bool false, rest')
      else .error s!"tree: bad bool {tok}"
    | _ => .error s!"tree: unknown node '{c}'"

/-- elements up to the closing bracket -/
partial def elems (cs : List Char) (close : Char) (acc : List Asn1) : Except String (List Asn1 × List Char) :=
  match cs with
  | [] => .error "tree: missing closing bracket"
  | c :: rest =>
    if c == close then pure (acc.reverse, rest)
    else if c == ',' then elems rest close acc
    else do
      let (t, rest') ← tree cs
      elems rest' close (t :: acc)
end

def parseTree (s : String) : P Asn1 :=
  match tree s.toList with
  | .ok (t, []) => .ok t
  | .ok (_, _) => .error "tree: trailing characters"
  | .error e => .error e

end C13Parse

def showPck (p : PckExtensions) : String :=
  let h (s : String) := if s == "" then "-" else s
  let hb (b : Bytes) := if b.isEmpty then "-" else hexOf b
  s!"ok ppid={h p.ppid} comps={hb p.tcb.comps} pcesvn={p.tcb.pcesvn} cpusvn={hb p.tcb.cpusvn} pceid={h p.pceid} fmspc={h p.fmspc}"

def c13 (l : Line) : P String := do
  let n ← l.nat "n"
  let extsS ← l.str "exts"
  let oids ← (if extsS == "-" then pure [] else
    (extsS.splitOn ",").mapM fun s => match C13Parse.parseOid s with
      | some o => pure o
      | none => .error s!"bad oid {s}")
  if oids.length ≠ n then .error "n does not match exts" else
  let sgxS ← l.str "sgx"
  let fact : Option ExtVal ←
    if sgxS == "none" then pure none
    else if sgxS == "derr" then pure (some .derError)
    else if sgxS.startsWith "T:" then (fun t => some (.tree t false)) <$> C13Parse.parseTree (sgxS.drop 2).toString
    else if sgxS.startsWith "R:" then (fun t => some (.tree t true)) <$> C13Parse.parseTree (sgxS.drop 2).toString
    else .error s!"bad sgx fact"
  -- the fact must be supplied exactly when an extension carries the SGX id
  let present := oids.any (· == oidSgx)
  if present != fact.isSome then .error "sgx fact does not match exts" else
  let exts : List (List Nat × ExtVal) := oids.map fun o =>
    if o == oidSgx then (o, fact.getD .derError) else (o, .tree .other false)
  match pckCertificateExtensions { exts := exts } with
  | .ok p => pure (showPck p)
  | .err _ => pure "err"
  | .panic => pure "panic"

end Tdx.Drive
