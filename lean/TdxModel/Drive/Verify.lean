/-
  Line-protocol driver for the verification group (C01–C07, C11, C12): `V.verify …`.
  See harness/world/facts.go for the emitting side; every token is documented there.
-/
import TdxModel.Verify
import TdxModel.Drive.Msg
import TdxModel.Drive.PckExt

namespace Tdx.Drive.V
open Tdx Tdx.Proto Tdx.Abi Tdx.Verify Tdx.Drive

def hexStr (s : String) : P String :=
  if s == "-" then .ok "" else
  match unhex s with
  | some b => match String.fromUTF8? (ByteArray.mk b.toArray) with
    | some t => .ok t
    | none => .error "bad utf8"
  | none => .error s!"bad hex string {s.take 16}"

def natOf (s : String) : P Nat := match s.toNat? with
  | some n => .ok n
  | none => .error s!"bad nat {s}"
def intOf (s : String) : P Int := match s.toInt? with
  | some n => .ok n
  | none => .error s!"bad int {s}"
def boolOf (s : String) : P Bool := if s == "1" then .ok true else if s == "0" then .ok false else .error s!"bad bool {s}"
def bytesOf (s : String) : P Bytes := if s == "-" then .ok [] else match unhex s with
  | some b => .ok b
  | none => .error s!"bad hex {s.take 16}"

/-- `<n>:<oids>:<sgxfact>` (same facts as the C13 line) -/
def parsePck (s : String) : P PckExt.Cert := do
  match s.splitOn ":" with
  | n :: oidsS :: rest =>
    let sgxS := String.intercalate ":" rest
    let n ← natOf n
    let oids ← (if oidsS == "-" then pure [] else
      (oidsS.splitOn ",").mapM fun s => match C13Parse.parseOid s with
        | some o => pure o
        | none => .error s!"bad oid {s}")
    if oids.length ≠ n then .error "pck: n does not match exts" else
    let fact : Option PckExt.ExtVal ←
      if sgxS == "none" then pure none
      else if sgxS == "derr" then pure (some .derError)
      else if sgxS.startsWith "T:" then (fun t => some (.tree t false)) <$> C13Parse.parseTree (sgxS.drop 2).toString
      else if sgxS.startsWith "R:" then (fun t => some (.tree t true)) <$> C13Parse.parseTree (sgxS.drop 2).toString
      else .error "bad sgx fact"
    pure { exts := oids.map fun o => if o == PckExt.oidSgx then (o, fact.getD .derError) else (o, .tree .other false) }
  | _ => .error "bad pck facts"

/-- `ver,sig,pk,curve,subjCN,issCN,subj,iss,serial,nb,na,canCert,canCrl,keyId,signedBy,dps` (+ optional pck facts under `x<i>`) -/
def parseCert (l : Line) (i : Nat) : P CertF := do
  let v ← l.str s!"c{i}"
  match v.splitOn "," with
  | [ver, sg, pk, cv, scn, icn, subj, iss, ser, nb, na, cc, ccrl, kid, sby, dps] =>
    let dpl ← if dps == "-" then pure [] else (dps.splitOn "+").mapM hexStr
    let pck ← match l.get? s!"x{i}" with
      | some s => parsePck s
      | none => pure { exts := [] }
    pure { version := ← natOf ver, sigAlgOk := ← boolOf sg, pkAlgOk := ← boolOf pk, curveOk := ← boolOf cv,
           subjectCN := ← hexStr scn, issuerCN := ← hexStr icn, subject := ← natOf subj, issuer := ← natOf iss,
           serial := ← natOf ser, notBefore := ← intOf nb, notAfter := ← intOf na, canSignCert := ← boolOf cc,
           canSignCrl := ← boolOf ccrl, keyId := ← natOf kid, signedBy := ← natOf sby, crlDPs := dpl, pck := pck }
  | _ => .error s!"cert {i} arity"

def parseBlock (s : String) : P (Option PemBlock) :=
  if s == "x" then pure none else
  match s.splitOn "," with
  | [ic, rl, rn, ci] => do
    let c ← intOf ci
    pure (some ⟨← boolOf ic, ← natOf rl, ← boolOf rn, if c < 0 then none else some c.toNat⟩)
  | _ => .error s!"bad pem block {s}"

def parsePem (s : String) : P PemFacts := if s == "-" then pure [] else (s.splitOn "/").mapM parseBlock

def parseHdr (s : String) : P HdrF :=
  if s == "a" then pure .absent
  else if s == "e" then pure .empty
  else if s == "u" then pure .unescapeErr
  else if s.startsWith "n" then HdrF.count <$> natOf (s.drop 1).toString
  else if s.startsWith "b" then HdrF.blocks <$> parsePem (s.drop 1).toString
  else .error s!"bad header facts {s}"

def parseLevel (e : String) : P TcbLevelF :=
  match e.splitOn ":" with
  | [sgx, pce, tdx, isv, st] => do
    pure { sgx := (← bytesOf sgx).map (·.toNat), pcesvn := ← natOf pce, tdx := (← bytesOf tdx).map (·.toNat),
           isvsvn := ← natOf isv, status := st }
  | _ => .error s!"bad level {e}"

/-- levels: `/`-joined `sgx:pcesvn:tdx:isvsvn:status` -/
def parseLevels (s : String) : P (List TcbLevelF) :=
  if s == "-" then pure [] else (s.splitOn "/").mapM parseLevel

def parseTcbDoc (l : Line) (p : String) : P TcbInfoDoc := do
  let n ← l.nat s!"{p}nid"
  let ids ← (List.range n).mapM fun i => do
    pure ({ id := ← hexStr (← l.str s!"{p}id{i}"), levels := ← parseLevels (← l.str s!"{p}idlv{i}") } : ModuleIdF)
  pure { id := ← hexStr (← l.str s!"{p}id"), version := ← l.nat s!"{p}ver", nextUpdate := ← l.int s!"{p}next",
         fmspc := ← hexStr (← l.str s!"{p}fmspc"), pceId := ← hexStr (← l.str s!"{p}pceid"),
         modMrsigner := ← bytesOf (← l.str s!"{p}mrs"), modAttributes := ← bytesOf (← l.str s!"{p}attr"),
         modMask := ← bytesOf (← l.str s!"{p}mask"), identities := ids, levels := ← parseLevels (← l.str s!"{p}lv") }

def parseQeDoc (l : Line) (p : String) : P QeIdDoc := do
  pure { id := ← hexStr (← l.str s!"{p}id"), version := ← l.nat s!"{p}ver", nextUpdate := ← l.int s!"{p}next",
         miscselect := ← bytesOf (← l.str s!"{p}misc"), miscselectMask := ← bytesOf (← l.str s!"{p}miscm"),
         attributes := ← bytesOf (← l.str s!"{p}attr"), attributesMask := ← bytesOf (← l.str s!"{p}attrm"),
         mrsigner := ← bytesOf (← l.str s!"{p}mrs"), isvProdId := ← l.nat s!"{p}prod", levels := ← parseLevels (← l.str s!"{p}lv") }

/-- body facts under prefix `p` (`t` / `q`): `<p>b=bad` or `<p>b=ok` + `<p>sig`, `<p>z`, `<p>raw`, `<p>rd=err|ok`, docs under `<p>s.` and `<p>r.` -/
def parseBody {Doc : Type} [Inhabited Doc] (l : Line) (p : String) (doc : Line → String → P Doc) : P (BodyF Doc) := do
  let b ← l.str s!"{p}b"
  if b == "bad" then pure { structOk := false, signature := "", structDoc := default, raw := none, rawDoc := none, zero := true }
  else
    let rawS ← l.str s!"{p}raw"
    let raw ← if rawS == "nil" then pure none else some <$> bytesOf rawS
    let rd ← l.str s!"{p}rd"
    let rawDoc ← if rd == "ok" then some <$> doc l s!"{p}r." else pure none
    pure { structOk := true, signature := ← hexStr (← l.str s!"{p}sig"), structDoc := ← doc l s!"{p}s.",
           raw := raw, rawDoc := rawDoc, zero := ← l.bool s!"{p}z" }

def parseCrl (s : String) : P (Option CrlF) :=
  if s == "perr" then pure none else
  match s.splitOn "," with
  | [iss, sby, rev, nu] => do
    let revoked ← if rev == "-" then pure [] else (rev.splitOn "+").mapM natOf
    pure (some ⟨← natOf iss, ← natOf sby, revoked, ← intOf nu⟩)
  | _ => .error s!"bad crl facts {s.take 20}"

def parseVcertEntry (e : String) : P (String × Bool) :=
  match e.splitOn "," with
  | [i, m, s, r] => do pure (s!"{i},{m},{s}", ← boolOf r)
  | _ => .error "bad vcert"

structure Facts where
  w : World
  C : Crypto
  /-- the keys under which the harness computed the crypto facts (checked against what the model asks) -/
  vrawKey : Option String
  shaKey : Option String

def parseWorld (l : Line) : P Facts := do
  let nc ← l.nat "nc"
  let certs ← (List.range nc).mapM (parseCert l)
  let chainS ← l.str "chain"
  let chain ← if chainS == "nil" then pure none else some <$> parsePem chainS
  let poolS ← l.str "pool"
  let pool ← if poolS == "nil" then pure none else if poolS == "-" then pure (some []) else some <$> (poolS.splitOn ",").mapM natOf
  -- fetch tables: url (hex) ↦ facts
  let tcbUrl ← hexStr (← l.str "turl")
  let tcbF : FetchF (BodyF TcbInfoDoc) ←
    (do let f ← l.str "tf"
        if f == "fail" then pure .fail else pure (.resp (← parseHdr (← l.str "th")) (← parseBody l "t" parseTcbDoc)))
  let qeUrl ← hexStr (← l.str "qurl")
  let qeF : FetchF (BodyF QeIdDoc) ←
    (do let f ← l.str "qf"
        if f == "fail" then pure .fail else pure (.resp (← parseHdr (← l.str "qh")) (← parseBody l "q" parseQeDoc)))
  let pUrl ← hexStr (← l.str "purl")
  let pF : FetchF (Option CrlF) ←
    (do let f ← l.str "pf"
        if f == "fail" then pure .fail else pure (.resp (← parseHdr (← l.str "ph")) (← parseCrl (← l.str "pcrl"))))
  -- root CRL distribution points: `r<i>url`, `r<i>=fail|<crl facts>`
  let nr ← l.nat "nr"
  let roots ← (List.range nr).mapM fun i => do
    let u ← hexStr (← l.str s!"r{i}url")
    let f ← l.str s!"r{i}"
    let v ← if f == "fail" then pure none else some <$> parseCrl f
    pure (u, v)
  let w : World := {
    certs := certs, chainPem := chain, pool := pool, embeddedRoot := ← l.nat "emb",
    fetchTcb := fun u => if u == tcbUrl then tcbF else .fail,
    fetchQe := fun u => if u == qeUrl then qeF else .fail,
    fetchPckCrl := fun u => if u == pUrl then pF else .fail,
    fetchRootCrl := fun u => match roots.find? (·.1 == u) with
      | some (_, v) => v
      | none => none,
    clock := ← l.int "clock" }
  -- crypto facts
  let onc ← l.bool "onc"
  let vrawS ← l.str "vraw"
  let (vrawKey, vrawRes) ← if vrawS == "-" then pure (none, false) else
    match vrawS.splitOn "," with
    | [a, b, c, r] => do pure (some s!"{a},{b},{c}", ← boolOf r)
    | _ => .error "bad vraw"
  let vcertS ← l.str "vcert"
  let vcerts ← if vcertS == "-" then pure [] else (vcertS.splitOn "/").mapM parseVcertEntry
  let shaS ← l.str "sha"
  let (shaKey, shaVal) ← if shaS == "-" then pure (none, []) else
    match shaS.splitOn "," with
    | [k, v] => do pure (some k, ← bytesOf v)
    | _ => .error "bad sha"
  let C : Crypto := {
    onCurve := fun _ => onc,
    verifyRaw := fun k m s => vrawKey == some s!"{fp k},{fp m},{fp s}" && vrawRes,
    verifyCert := fun i m s => match vcerts.find? (·.1 == s!"{i},{fp m},{fp s}") with
      | some (_, r) => r
      | none => false,
    sha256 := fun b => if shaKey == some (fp b) then shaVal else zeros 32 }
  pure { w := w, C := C, vrawKey := vrawKey, shaKey := shaKey }

def parseFixes (l : Line) : P Fixes := do
  let s ← l.str "fx"
  match s.toList with
  | [a, b, c, d] => pure ⟨a == '1', b == '1', c == '1', d == '1'⟩
  | _ => .error "bad fx"

def parseTimeSet (s : String) : P (Option TimeSet) :=
  if s == "nil" then pure none else
  match s.splitOn "," with
  | [a, b, c, d, e] => do pure (some ⟨← intOf a, ← intOf b, ← intOf c, ← intOf d, ← intOf e⟩)
  | _ => .error "bad timeset"

def showVerdict : Outcome Unit → String
  | .ok _ => "ok"
  | .err _ => "err"
  | .panic => "panic"

def errClass : Outcome Unit → String
  | .err e => e.replace " " "_"
  | _ => "-"

/-- consistency of the supplied crypto facts with what the model computes from the message -/
def factCheck (f : Facts) (q : Option QuoteV4) : Option String :=
  match q with
  | none => none
  | some q =>
    match checkQuoteV4 (some q), signedMessage q with
    | .ok _, .ok msg =>
      let sd := q.signedData.getD default
      let k1 := s!"{fp sd.ecdsaAttestationKey},{fp msg},{fp sd.signature}"
      let auth := (((qeCertData q).getD default).qeAuthData.getD default).data
      let k2 := fp (sd.ecdsaAttestationKey ++ auth)
      if f.vrawKey.isSome && f.vrawKey != some k1 then some "vraw fact computed over a different key/message/signature than the model's"
      else if f.shaKey.isSome && f.shaKey != some k2 then some "sha fact computed over different bytes than the model's"
      else none
    | _, _ => none

/-- `V.verify …` → `ok|err|panic urls=<n>:<fp of the joined list> now=<kept|set> cls=<error class>` -/
def verify (l : Line) : P String := do
  let fx ← parseFixes l
  let q ← parseQuote l
  let f ← parseWorld l
  let o : Opts := { checkRevocations := ← l.bool "cr", getCollateral := ← l.bool "gc", now := ← parseTimeSet (← l.str "now") }
  match factCheck f q with
  | some e => .error e
  | none =>
    let r := tdxQuote fx f.C f.w q o
    let urls := String.intercalate "\n" r.urls
    let nowS := if r.nowAfter == o.now then "kept" else "set"
    pure s!"{showVerdict r.verdict} urls={r.urls.length}:{(fnv1a urls.toUTF8.toList).toNat} now={nowS} cls={errClass r.verdict}"


def showLevel (l : TcbLevelF) : String :=
  s!"{if l.status == "" then "_" else l.status}:{l.isvsvn}:{l.pcesvn}:{hexOf (l.sgx.map UInt8.ofNat)}"

/-- `V.levels … f5=<0|1>`: SupportedTcbLevelsFromCollateral right after TdxQuote on the same options -/
def levels (l : Line) : P String := do
  let fx ← parseFixes l
  let q ← parseQuote l
  let f ← parseWorld l
  let o : Opts := { checkRevocations := ← l.bool "cr", getCollateral := ← l.bool "gc", now := ← parseTimeSet (← l.str "now") }
  match supportedLevelsCall (← l.bool "f5") fx f.w q o with
  | .ok (a, b) => pure s!"ok tcb={showLevel a} qe={showLevel b}"
  | .err _ => pure "err"
  | .panic => pure "panic"

end Tdx.Drive.V
