/-
  Line-protocol driver for the retry model (C20).

    C20.get to=<ns> max=<ns> script=<dur>:<0|1>,… tie=<bits|-> spin=<n>

  `script`: per call its duration in ns and whether it succeeds; the last entry repeats.  The k-th
  call's response payload is the number k (the Go driver gives every call a distinct response and
  reports the index of the one that came back).  `tie`: bit k = the branch the real code took in
  the select after call k (1 = it made another call); the model consults it only when the timer and
  the deadline are ready at the same virtual instant.  `spin`: the harness' spin guard — when that
  many consecutive calls start at one virtual instant the harness stops the run and reports `spin`.
-/
import TdxModel.Retry
import TdxModel.Proto

namespace Tdx.Drive
open Tdx Tdx.Proto Tdx.Retry

def showInts (l : List Int) : String :=
  if l.isEmpty then "-" else String.intercalate "," (l.map toString)

/-- length of the longest run of equal consecutive elements -/
def longestRun : List Int → Nat
  | [] => 0
  | x :: xs =>
    let rec go (prev : Int) (cur best : Nat) : List Int → Nat
      | [] => max cur best
      | y :: ys => if y = prev then go prev (cur + 1) best ys else go y 1 (max cur best) ys
    go x 1 0 xs

def parseCall (k : Nat) (s : String) : P (Call Nat) :=
  match s.splitOn ":" with
  | [d, o] =>
    match d.toNat?, o with
    | some dur, "1" => .ok ⟨dur, some k⟩
    | some dur, "0" => .ok ⟨dur, none⟩
    | _, _ => .error s!"bad script entry {s}"
  | _ => .error s!"bad script entry {s}"

def parseScript (v : String) : P (List (Call Nat)) :=
  let rec go (k : Nat) : List String → P (List (Call Nat))
    | [] => .ok []
    | s :: rest => do
      let c ← parseCall k s
      let cs ← go (k + 1) rest
      pure (c :: cs)
  go 0 (v.splitOn ",")

def parseBits (v : String) : P (List Bool) :=
  if v == "-" then .ok []
  else v.toList.mapM fun ch => if ch == '1' then .ok true else if ch == '0' then .ok false else .error s!"bad tie bits {v}"

/-- the response of a repeated last entry carries the index of the call that is made -/
def scriptOf (l : List (Call Nat)) : Nat → Call Nat := fun k =>
  let c := ofList l k
  { c with resp := c.resp.map fun _ => k }

def c20get (l : Line) : P String := do
  let cfg : Cfg := { timeout := ← l.int "to", maxDelay := ← l.int "max" }
  let script ← parseScript (← l.str "script")
  let tie ← parseBits (← l.str "tie")
  let spin ← l.nat "spin"
  let fuel := spin + script.length + 5000
  let t := get cfg (scriptOf script) (ofBits tie) fuel
  if spin > 0 ∧ longestRun t.calls ≥ spin then pure "spin"
  else match t.res with
    | .success k r at_ => pure s!"ok k={r} n={k + 1} at={at_} calls={showInts t.calls} waits={showInts t.waits}"
    | .timeout n at_ => pure s!"err n={n} at={at_} calls={showInts t.calls} waits={showInts t.waits}"
    | .outOfFuel => .error s!"model out of fuel after {fuel} calls without a spin"

end Tdx.Drive
