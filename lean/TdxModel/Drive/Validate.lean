import TdxModel.Validate
import TdxModel.Drive.Msg
import TdxModel.Drive.Abi

namespace Tdx.Drive
open Tdx Tdx.Proto Tdx.Abi Tdx.Validate

def Line.ob (l : Line) (k : String) : P (Option Bytes) := do
  let v ← l.str k
  if v == "nil" then pure none
  else if v == "e" then pure (some [])
  else (some <$> l.bytesOf v)

/-- validate.Options on the line: `o=nil` or `o=set` + the fields -/
def parseOptions (l : Line) : P (Option Options) := do
  if (← l.str "o") == "nil" then pure none
  else pure (some {
    minimumQeSvn := ← l.nat "minqe", minimumPceSvn := ← l.nat "minpce", qeVendorId := ← Line.ob l "oven",
    minimumTeeTcbSvn := ← Line.ob l "omintee", mrSeam := ← Line.ob l "oseam", tdAttributes := ← Line.ob l "otdattr",
    xfam := ← Line.ob l "oxfam", mrTd := ← Line.ob l "omrtd", mrConfigId := ← Line.ob l "ocfg", mrOwner := ← Line.ob l "oown",
    mrOwnerConfig := ← Line.ob l "oownc", rtmrs := ← l.bytesList "ortmrs", reportData := ← Line.ob l "ord",
    anyMrTd := ← l.bytesList "oany" })

/-- checkconfig.Policy on the line: `p=nil|set`, `hp=nil|set`, `tp=nil|set` + fields -/
def parseHeaderPolicy (l : Line) : P HeaderPolicy := do
  let a ← l.nat "pminqe"
  let b ← l.nat "pminpce"
  let c ← Line.ob l "pven"
  pure { minimumQeSvn := a, minimumPceSvn := b, qeVendorId := c }

def parseTdPolicy (l : Line) : P TdBodyPolicy := do
  let a ← Line.ob l "pmintee"
  let b ← Line.ob l "pseam"
  let c ← Line.ob l "ptdattr"
  let d ← Line.ob l "pxfam"
  let e ← Line.ob l "pmrtd"
  let f ← Line.ob l "pcfg"
  let g ← Line.ob l "pown"
  let h ← Line.ob l "pownc"
  let i ← l.bytesList "prtmrs"
  let j ← Line.ob l "prd"
  let k ← l.bytesList "pany"
  pure { minimumTeeTcbSvn := a, mrSeam := b, tdAttributes := c, xfam := d, mrTd := e, mrConfigId := f, mrOwner := g,
         mrOwnerConfig := h, rtmrs := i, reportData := j, anyMrTd := k }

def parsePolicy (l : Line) : P (Option Policy) := do
  if (← l.str "p") == "nil" then pure none
  else
    let hp ← if (← l.str "hp") == "nil" then pure none else some <$> parseHeaderPolicy l
    let tp ← if (← l.str "tp") == "nil" then pure none else some <$> parseTdPolicy l
    pure (some { headerPolicy := hp, tdQuoteBodyPolicy := tp })

def ob (o : Option Bytes) : String := match o with
  | none => "nil"
  | some [] => "e"
  | some b => hexOf b

def bl (l : List Bytes) : String :=
  if l.isEmpty then "-" else String.intercalate "," (l.map fun b => if b.isEmpty then "e" else hexOf b)

def dumpOptions (o : Options) : String :=
  s!"minqe={o.minimumQeSvn} minpce={o.minimumPceSvn} ven={ob o.qeVendorId} mintee={ob o.minimumTeeTcbSvn} seam={ob o.mrSeam} tdattr={ob o.tdAttributes} xfam={ob o.xfam} mrtd={ob o.mrTd} cfg={ob o.mrConfigId} own={ob o.mrOwner} ownc={ob o.mrOwnerConfig} rtmrs={bl o.rtmrs} rd={ob o.reportData} any={bl o.anyMrTd}"

/-- `C08.val q=… o=…`: validate.TdxQuote -/
def c08val (l : Line) : P String := do
  let q ← parseQuote l
  let o ← parseOptions l
  pure (showUnit (validate q o))

/-- `C14.conv p=…`: validate.PolicyToOptions -/
def c14conv (l : Line) : P String := do
  let p ← parsePolicy l
  match policyToOptions p with
  | .ok o => pure s!"ok {dumpOptions o}"
  | .err _ => pure "err"
  | .panic => pure "panic"

/-- `C14.val p=… q=…`: convert, then validate under the converted options -/
def c14val (l : Line) : P String := do
  let p ← parsePolicy l
  let q ← parseQuote l
  match policyToOptions p with
  | .ok o => pure s!"conv=ok val={showUnit (validate q (some o))}"
  | .err _ => pure "conv=err"
  | .panic => pure "conv=panic"

end Tdx.Drive
