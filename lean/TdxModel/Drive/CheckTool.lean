import TdxModel.CheckTool
import TdxModel.Proto

/-
  Line protocol for C19.

  C19.run fpk=<0|1> quote=<unreadable|badinform|unparsable|parsed>
     cfg=<none|bad|file> c.pol c.hdr c.body c.rot (0/1: sub-message present)
     c.qe c.pce (nat) c.qvid c.<bodyfield> (hex, - empty) c.rtmrs c.any (lists) c.paths c.bundles (token lists) c.crl c.gc
     f.crl f.gc (unset|true|false|bad) f.qe f.pce (unset|bad|<n>) f.qvid f.<bodyfield> (unset|bad|e|<hex>)
     f.rtmrs (unset|bad|<list>) f.roots (unset|bad|<tokens>)
     vt=<rotkey>:<rotbad|ok|fail|tcb|qe|pckcrl|rootcrl>;…      the library's verdict per candidate root of trust
     pm.<field>=<value>:<0|1>;…                                   per field: does this option value accept the quote
  Answer: `exit=<n>` or `crash`.  A table entry the model needs and the harness did not supply is a
  driver error.
-/
namespace Tdx.Drive
open Tdx Tdx.Proto Tdx.CheckTool

def BodyField.key : BodyField → String
  | .minimumTeeTcbSvn => "mintee" | .mrSeam => "mrseam" | .tdAttributes => "tdattr" | .xfam => "xfam"
  | .mrTd => "mrtd" | .mrConfigId => "mrconfigid" | .mrOwner => "mrowner" | .mrOwnerConfig => "mrownerconfig"
  | .reportData => "reportdata"

def tokList (v : String) : List String := if v == "-" then [] else v.splitOn ","

def parseBytesList (v : String) : P (List Bytes) :=
  if v == "-" then .ok []
  else (v.splitOn ",").mapM fun s => if s == "e" then .ok [] else parseBytes s

def boolFlag (l : Line) (k : String) : P BoolFlag := do
  match ← l.str k with
  | "unset" => pure .unset
  | "true" => pure .t
  | "false" => pure .f
  | "bad" => pure .bad
  | v => .error s!"bad bool flag {k}={v}"

def numFlag (l : Line) (k : String) : P NumFlag := do
  let v ← l.str k
  if v == "unset" then pure .unset
  else if v == "bad" then pure .bad
  else match v.toNat? with
    | some n => pure (.val n)
    | none => .error s!"bad num flag {k}={v}"

def bytesFlag (l : Line) (k : String) : P BytesFlag := do
  let v ← l.str k
  if v == "unset" then pure .unset
  else if v == "bad" then pure .bad
  else if v == "e" then pure (.dec [])
  else (.dec <$> parseBytes v)

def rtmrsFlag (l : Line) (k : String) : P (ListFlag Bytes) := do
  let v ← l.str k
  if v == "unset" then pure .unset
  else if v == "bad" then pure .bad
  else (.val <$> parseBytesList v)

def pathsFlag (l : Line) (k : String) : P (ListFlag String) := do
  let v ← l.str k
  if v == "unset" then pure .unset
  else if v == "bad" then pure .bad
  else pure (.val (tokList v))

def bodyFields (l : Line) (pre : String) (f : Line → String → P α) : P (BodyField → α) := do
  let a ← f l (pre ++ "mintee")
  let b ← f l (pre ++ "mrseam")
  let c ← f l (pre ++ "tdattr")
  let d ← f l (pre ++ "xfam")
  let e ← f l (pre ++ "mrtd")
  let g ← f l (pre ++ "mrconfigid")
  let h ← f l (pre ++ "mrowner")
  let i ← f l (pre ++ "mrownerconfig")
  let j ← f l (pre ++ "reportdata")
  pure fun
    | .minimumTeeTcbSvn => a | .mrSeam => b | .tdAttributes => c | .xfam => d | .mrTd => e
    | .mrConfigId => g | .mrOwner => h | .mrOwnerConfig => i | .reportData => j

def configArg (l : Line) : P ConfigArg := do
  match ← l.str "cfg" with
  | "none" => pure .absent
  | "bad" => pure .unreadable
  | "file" =>
    let hdr : HeaderMsg := { minimumQeSvn := ← l.nat "c.qe", minimumPceSvn := ← l.nat "c.pce", qeVendorId := ← l.bytes "c.qvid" }
    let body : BodyMsg := { bytes := ← bodyFields l "c." Line.bytes, rtmrs := ← parseBytesList (← l.str "c.rtmrs"),
                            anyMrTd := ← parseBytesList (← l.str "c.any") }
    let rot : RootOfTrust := { cabundlePaths := tokList (← l.str "c.paths"), cabundles := tokList (← l.str "c.bundles"),
                               checkCrl := ← l.bool "c.crl", getCollateral := ← l.bool "c.gc" }
    let pol : PolicyMsg := { header := if ← l.bool "c.hdr" then some hdr else none, body := if ← l.bool "c.body" then some body else none }
    pure (.file { policy := if ← l.bool "c.pol" then some pol else none, rootOfTrust := if ← l.bool "c.rot" then some rot else none })
  | v => .error s!"bad cfg={v}"

def flagsOf (l : Line) : P Flags := do
  pure { checkCrl := ← boolFlag l "f.crl", getCollateral := ← boolFlag l "f.gc",
         minimumQeSvn := ← numFlag l "f.qe", minimumPceSvn := ← numFlag l "f.pce",
         qeVendorId := ← bytesFlag l "f.qvid", body := ← bodyFields l "f." bytesFlag,
         rtmrs := ← rtmrsFlag l "f.rtmrs", trustedRoots := ← pathsFlag l "f.roots" }

def quoteArg (l : Line) : P QuoteArg := do
  match ← l.str "quote" with
  | "unreadable" => pure .unreadable
  | "badinform" => pure .badInform
  | "unparsable" => pure .unparsable
  | "parsed" => pure .parsed
  | v => .error s!"bad quote={v}"

/-! tables -/

def joinToks (l : List String) : String := if l.isEmpty then "-" else String.intercalate "+" l

def rotKey (r : RootOfTrust) : String :=
  s!"{joinToks r.cabundlePaths}/{joinToks r.cabundles}/{if r.getCollateral then 1 else 0}{if r.checkCrl then 1 else 0}"

def table (l : Line) (k : String) : P (List (String × String)) := do
  let v ← l.str k
  (v.splitOn ";").mapM fun e => match e.splitOn ":" with
    | [a, b] => .ok (a, b)
    | _ => .error s!"bad table entry in {k}: {e}"

def hexKey (b : Bytes) : String := if b.isEmpty then "-" else hexOf b
def listKey (l : List Bytes) : String :=
  if l.isEmpty then "-" else String.intercalate "," (l.map fun b => if b.isEmpty then "e" else hexOf b)

structure Tables where
  vt    : List (String × String)
  qe    : List (String × String)
  pce   : List (String × String)
  qvid  : List (String × String)
  body  : BodyField → List (String × String)
  rtmrs : List (String × String)
  any   : List (String × String)

def Tables.entries (t : Tables) (p : Policy) : List (String × List (String × String) × String) :=
  [("pm.qe", t.qe, toString p.header.minimumQeSvn), ("pm.pce", t.pce, toString p.header.minimumPceSvn),
   ("pm.qvid", t.qvid, hexKey p.header.qeVendorId)] ++
  (BodyField.all.map fun k => ("pm." ++ BodyField.key k, t.body k, hexKey (p.body.bytes k))) ++
  [("pm.rtmrs", t.rtmrs, listKey p.body.rtmrs), ("pm.any", t.any, listKey p.body.anyMrTd)]

def lookup (tab : List (String × String)) (k : String) : Option String := (tab.find? (·.1 == k)).map (·.2)

def Tables.validates (t : Tables) (p : Policy) : Bool :=
  (t.entries p).all fun (_, tab, k) => lookup tab k == some "1"

def vresult : String → Option (Bool × VResult)
  | "rotbad" => some (false, .ok)
  | "ok" => some (true, .ok)
  | "fail" => some (true, .fail .other)
  | "tcb" => some (true, .fail .tcbInfoFetch)
  | "qe" => some (true, .fail .qeIdentityFetch)
  | "pckcrl" => some (true, .fail .pckCrlFetch)
  | "rootcrl" => some (true, .fail .rootCrlFetch)
  | _ => none

def Tables.library (t : Tables) : Library :=
  { rotOk := fun r => match (lookup t.vt (rotKey r)).bind vresult with
      | some (b, _) => b
      | none => false
    verify := fun r => match (lookup t.vt (rotKey r)).bind vresult with
      | some (_, v) => v
      | none => .fail .other
    validates := t.validates }

/-- every table entry the model will consult for this input must have been supplied -/
def Tables.complete (t : Tables) (i : ToolInput) : P Unit := do
  -- with a malformed flag the tool stops before any table is consulted
  if !(i.flags.bytesOk && i.flags.restOk) then return ()
  let r := effectiveRot i
  match (lookup t.vt (rotKey r)).bind vresult with
  | none => .error s!"no verdict for root of trust {rotKey r}"
  | some _ => pure ()
  for (name, tab, k) in t.entries (effectivePolicy i) do
    match lookup tab k with
    | some "0" | some "1" => pure ()
    | _ => .error s!"no entry in {name} for {k.take 40}"

def c19 (v : Variant) (l : Line) : P String := do
  let i : ToolInput := { flagPkgOk := ← l.bool "fpk", flags := ← flagsOf l, config := ← configArg l, quote := ← quoteArg l }
  let t : Tables := { vt := ← table l "vt", qe := ← table l "pm.qe", pce := ← table l "pm.pce", qvid := ← table l "pm.qvid",
                      body := ← bodyFields l "pm." table, rtmrs := ← table l "pm.rtmrs", any := ← table l "pm.any" }
  t.complete i
  match toolV v t.library i with
  | .exit n => pure s!"exit={n}"
  | .crash => pure "crash"

end Tdx.Drive
