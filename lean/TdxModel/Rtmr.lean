/-
  TdxModel.Rtmr — rtmr/extend.go (`ExtendDigestClient`, `ExtendEventLogClient`) on top of the pinned
  github.com/google/go-configfs-tsm v0.3.2 `rtmr.ExtendDigest`, against a model TSM (C17).

  Three layers, each a separate definition:

  * the **TSM** behind the `configfsi.Client` interface (`Tsm`): the entries of
    `/sys/kernel/config/tsm/rtmrs` in `ReadDir` order (sorted by file name), each with the content of
    its `index` attribute, the hardware registers by index, and the serial used by `MkdirTemp`.
    Kernel-like semantics: writing `index` binds the entry (refused when another entry is already
    bound to that index), writing `digest` extends the register the entry is bound to:
    `r ↦ sha384 (r ++ d)`.
  * **go-configfs-tsm** (`libExtendDigest`): length and sign checks, `searchRtmrInterface`
    (`ReadDir`, then per directory entry `ReadFile index` + `Kstrtouint` + `int(index) != want`),
    `createRtmrInterface` (`MkdirTemp`, `WriteFile index strconv.Itoa(i)`) when none matches,
    `WriteFile digest`.
  * **go-tdx-guest** (`extendDigestClient`, `extendEventLogClient`, `step`): request validation first,
    the TSM is not touched by an invalid request.

  `sha384` is a PARAMETER (`Hash`), with only its output length known.

  Constants: the literals `0`, `3` (index range) are inline in extend.go; `48` is
  `crypto.SHA384.Size()` and `6` is `crypto.SHA384` (Go standard library).  None of them exists in
  `Tdx.Gen`; `Gen.abi_RtmrSize` (= 48) is tied to `digestLen` by `rfl` in the proofs.

  Assumes a 64-bit `int` (`goInt`), as on every platform TDX exists on.
  Core Lean only.
-/
import TdxModel.Basic

namespace Tdx.Rtmr
open Tdx

/-- largest RTMR index accepted (`rtmrIndex > 3` in extend.go) -/
def maxIndex : Int := 3
/-- `crypto.SHA384.Size()` -/
def digestLen : Nat := 48
/-- `crypto.SHA384` as a `crypto.Hash` value -/
def sha384Code : Nat := 6

/-- the hash function is a parameter; all that is known is its output length -/
structure Hash where
  sha384 : Bytes → Bytes
  len : ∀ b, (sha384 b).length = digestLen

def zero48 : Bytes := zeros digestLen

/-- the RTMR extend operation -/
def extend (H : Hash) (r d : Bytes) : Bytes := H.sha384 (r ++ d)

/-! ### requests -/

inductive Req where
  /-- `ExtendDigestClient(client, index, digest)` -/
  | digest (index : Int) (digest : Bytes)
  /-- `ExtendEventLogClient(client, index, hashAlgo, eventLog)`; `hashAlgo` is the `crypto.Hash` number -/
  | eventLog (index : Int) (hashAlgo : Nat) (log : Bytes)
deriving Repr, DecidableEq

def Req.index : Req → Int
  | .digest i _ => i
  | .eventLog i _ _ => i

/-- the digest a (valid) request asks to extend -/
def Req.digestOf (H : Hash) : Req → Bytes
  | .digest _ d => d
  | .eventLog _ _ log => H.sha384 log

/-! ### what the client interface sees -/

/-- entry names: those that existed before (any string) and those made by `MkdirTemp` with the
    pattern `rtmr<index>-` (the TSM appends a 10-digit serial) -/
inductive Name where
  | pre (s : String)
  | temp (index serial : Nat)
deriving Repr, DecidableEq

def pad10 (n : Nat) : String :=
  let s := toString n
  String.ofList (List.replicate (10 - s.length) '0') ++ s

def Name.render : Name → String
  | .pre s => s
  | .temp i n => s!"rtmr{i}-{pad10 n}"

inductive Attr where
  | index | digest
deriving Repr, DecidableEq

/-- one call on the `configfsi.Client` -/
inductive Op where
  | readDir                                         -- ReadDir(".../tsm/rtmrs")
  | readFile (e : Name) (a : Attr)                  -- ReadFile(".../rtmrs/<e>/<a>")
  | mkdirTemp (index : Nat)                         -- MkdirTemp(".../tsm/rtmrs", "rtmr<index>-")
  | writeFile (e : Name) (a : Attr) (data : Bytes)  -- WriteFile(".../rtmrs/<e>/<a>", data)
deriving Repr, DecidableEq

/-! ### `configfsi.Kstrtouint(b, 10, 64)`, `int(·)`, `strconv.Itoa` -/

/-- `strings.TrimRight(s, "\n")` -/
def trimNl (b : Bytes) : Bytes := (b.reverse.dropWhile (· == 10)).reverse

def decVal : Bytes → Nat → Option Nat
  | [], acc => some acc
  | c :: cs, acc =>
    if 48 ≤ c.toNat ∧ c.toNat ≤ 57 then decVal cs (acc * 10 + (c.toNat - 48)) else none

/-- `strconv.ParseUint(strings.TrimRight(string(b), "\n"), 10, 64)`: non-empty, decimal digits only
    (no sign, no underscore), value below 2⁶⁴ -/
def kstrtouint (b : Bytes) : Option Nat :=
  match trimNl b with
  | [] => none
  | s => match decVal s 0 with
    | some v => if v < 2 ^ 64 then some v else none
    | none => none

/-- Go `int(v)` for `v : uint64` on a 64-bit platform -/
def goInt (v : Nat) : Int := if v < 2 ^ 63 then (v : Int) else (v : Int) - 2 ^ 64

/-- `[]byte(strconv.Itoa(n))` for `n ≥ 0` -/
def itoa (n : Nat) : Bytes := (Nat.toDigits 10 n).map fun c => UInt8.ofNat c.toNat

/-! ### the TSM behind the client -/

structure Entry where
  name : Name
  /-- `DirEntry.IsDir()`; plain files in the subsystem directory are not entries -/
  isDir : Bool
  /-- content of `<entry>/index`; `none`: reading it fails -/
  index : Option Bytes
deriving Repr, DecidableEq

/-- the index an entry is bound to, as the TSM understands it -/
def Entry.bound (e : Entry) : Option Nat :=
  if e.isDir then e.index.bind kstrtouint else none

structure Tsm where
  /-- in `ReadDir` order (sorted by rendered name) -/
  entries : List Entry
  /-- the hardware registers -/
  regs : Nat → Bytes
  /-- serial of the next `MkdirTemp` name -/
  next : Nat

/-- a freshly booted TSM without rtmr entries -/
def init : Tsm := { entries := [], regs := fun _ => zero48, next := 0 }

/-- insertion in file-name order -/
def ins (e : Entry) : List Entry → List Entry
  | [] => [e]
  | x :: xs => if e.name.render < x.name.render then e :: x :: xs else x :: ins e xs

def Tsm.lookup (t : Tsm) (n : Name) : Option Entry := t.entries.find? (fun e => e.name == n)

/-- the name `MkdirTemp(".../rtmrs", "rtmr<i>-")` picks -/
def Tsm.tempName (t : Tsm) (i : Nat) : Name := Name.temp i t.next

/-- a new, unbound entry (empty `index` file) -/
def Tsm.newEntry (t : Tsm) (i : Nat) : Entry := { name := t.tempName i, isDir := true, index := some [] }

/-- `MkdirTemp(".../rtmrs", "rtmr<i>-")` -/
def Tsm.mkdirTemp (t : Tsm) (i : Nat) : Tsm × Name :=
  ({ t with entries := ins (t.newEntry i) t.entries, next := t.next + 1 }, t.tempName i)

/-- the `index` attribute of the entry called `n` becomes `v` -/
def Entry.setIndex (n : Name) (v : Bytes) (x : Entry) : Entry :=
  if x.name = n then { x with index := some v } else x

/-- `WriteFile(".../<n>/index", v)`: binds the entry; fails if the entry does not exist, `v` is not a
    number, or another entry is bound to that index already (EBUSY) -/
def Tsm.writeIndex (t : Tsm) (n : Name) (v : Bytes) : Option Tsm :=
  match t.lookup n with
  | none => none
  | some e =>
    if e.isDir then
      match kstrtouint v with
      | none => none
      | some j =>
        if t.entries.any (fun x => x.bound == some j) then none
        else some { t with entries := t.entries.map (Entry.setIndex n v) }
    else none

/-- `WriteFile(".../<n>/digest", d)`: extends the register the entry is bound to; fails if the entry
    does not exist or is unbound, or `d` is not 48 bytes (EINVAL) -/
def Tsm.writeDigest (H : Hash) (t : Tsm) (n : Name) (d : Bytes) : Option Tsm :=
  match t.lookup n with
  | none => none
  | some e =>
    match e.bound with
    | none => none
    | some j =>
      if d.length = digestLen then
        some { t with regs := fun k => if k = j then extend H (t.regs j) d else t.regs k }
      else none

/-! ### go-configfs-tsm v0.3.2 `rtmr` -/

/-- `(*Extend).validateIndex` on an entry for the wanted index -/
def validateIndex (e : Entry) (want : Int) : Bool :=
  match e.index with
  | none => false                      -- ReadFile error
  | some b =>
    match kstrtouint b with
    | none => false                    -- Kstrtouint error
    | some v => goInt v == want        -- int(index) != r.RtmrIndex

/-- the loop of `searchRtmrInterface` over the `ReadDir` result: the `ReadFile` calls made and the
    first matching directory entry -/
def search (want : Int) : List Entry → List Op × Option Entry
  | [] => ([], none)
  | e :: es =>
    if e.isDir then
      if validateIndex e want then ([Op.readFile e.name .index], some e)
      else ((Op.readFile e.name .index) :: (search want es).1, (search want es).2)
    else search want es

structure StepResult where
  tsm : Tsm
  out : Outcome Unit
  trace : List Op

/-- `rtmr.ExtendDigest(client, rtmr, digest)` of go-configfs-tsm -/
def libExtendDigest (H : Hash) (t : Tsm) (i : Int) (d : Bytes) : StepResult :=
  if d.length ≠ digestLen then ⟨t, .err "lib-digest-length", []⟩
  else if i < 0 then ⟨t, .err "lib-index", []⟩
  else
    let s := search i t.entries
    match s.2 with
    | some e =>
      -- entry exists: r.extendDigest(digest)
      let tr := Op.readDir :: s.1 ++ [Op.writeFile e.name .digest d]
      match t.writeDigest H e.name d with
      | some t' => ⟨t', .ok (), tr⟩
      | none => ⟨t, .err "write-digest", tr⟩
    | none =>
      -- createRtmrInterface
      let n := i.toNat
      let m := t.mkdirTemp n
      let v := itoa n
      let tr1 := Op.readDir :: s.1 ++ [Op.mkdirTemp n, Op.writeFile m.2 .index v]
      match m.1.writeIndex m.2 v with
      | none => ⟨m.1, .err "set-index", tr1⟩
      | some t2 =>
        let tr2 := tr1 ++ [Op.writeFile m.2 .digest d]
        match t2.writeDigest H m.2 d with
        | some t3 => ⟨t3, .ok (), tr2⟩
        | none => ⟨t2, .err "write-digest", tr2⟩

/-! ### go-tdx-guest rtmr/extend.go -/

/-- `ExtendDigestClient` -/
def extendDigestClient (H : Hash) (t : Tsm) (i : Int) (d : Bytes) : StepResult :=
  if i < 0 ∨ i > maxIndex then ⟨t, .err "index", []⟩
  else if d.length ≠ digestLen then ⟨t, .err "digest-length", []⟩
  else libExtendDigest H t i d

/-- `ExtendEventLogClient` -/
def extendEventLogClient (H : Hash) (t : Tsm) (i : Int) (alg : Nat) (log : Bytes) : StepResult :=
  if alg ≠ sha384Code then ⟨t, .err "hash-algo", []⟩
  else if log.length = 0 then ⟨t, .err "empty-log", []⟩
  else extendDigestClient H t i (H.sha384 log)

def step (H : Hash) (t : Tsm) : Req → StepResult
  | .digest i d => extendDigestClient H t i d
  | .eventLog i alg log => extendEventLogClient H t i alg log

/-- the TSM after a history of requests -/
def run (H : Hash) (t : Tsm) (rs : List Req) : Tsm := rs.foldl (fun t r => (step H t r).tsm) t

/-! ### specification vocabulary (used by the theorems of C17, not by `step`) -/

/-- the statement's notion of a valid request (Appendix B.4 `rtmrSpec`) -/
def Valid : Req → Prop
  | .digest i d => 0 ≤ i ∧ i ≤ 3 ∧ d.length = 48
  | .eventLog i alg log => 0 ≤ i ∧ i ≤ 3 ∧ alg = sha384Code ∧ log ≠ []

instance : DecidablePred Valid := fun r => by
  cases r <;> unfold Valid <;> exact inferInstance

/-- digests of the valid requests for register `i`, in call order -/
def acceptedDigests (H : Hash) (i : Nat) (rs : List Req) : List Bytes :=
  (rs.filter fun r => decide (Valid r) && decide (r.index = (i : Int))).map (Req.digestOf H)

/-- all `WriteFile …/digest` calls of a trace: (entry, data) -/
def digestWrites (tr : List Op) : List (Name × Bytes) :=
  tr.filterMap fun | .writeFile e .digest d => some (e, d) | _ => none

/-- all `WriteFile …/index` calls of a trace -/
def indexWrites (tr : List Op) : List (Name × Bytes) :=
  tr.filterMap fun | .writeFile e .index d => some (e, d) | _ => none

/-- all `MkdirTemp` calls of a trace -/
def mkdirs (tr : List Op) : List Nat :=
  tr.filterMap fun | .mkdirTemp i => some i | _ => none

/-- some entry is bound to index `j` -/
def Tsm.hasBound (t : Tsm) (j : Nat) : Prop := ∃ e ∈ t.entries, e.bound = some j

/-- the invariant of the TSM that the library relies on and maintains -/
structure WellFormed (t : Tsm) : Prop where
  /-- entry names are distinct -/
  names : t.entries.Pairwise fun a b => a.name ≠ b.name
  /-- `MkdirTemp` serials in use are below the next serial -/
  fresh : ∀ e ∈ t.entries, ∀ i n, e.name = Name.temp i n → n < t.next
  /-- no two entries are bound to the same index -/
  onePerIndex : t.entries.Pairwise fun a b => ∀ j, a.bound = some j → b.bound ≠ some j

/-- what one accepted extend of digest `d` on index `n` does: result, trace, and TSM -/
structure ExtendEffect (H : Hash) (t : Tsm) (n : Nat) (d : Bytes) (s : StepResult) : Prop where
  ok : s.out = .ok ()
  wf : WellFormed s.tsm
  /-- register `n` is extended by `d`, the others keep their value -/
  regs : ∀ k, s.tsm.regs k = if k = n then extend H (t.regs n) d else t.regs k
  /-- the first call is `ReadDir` -/
  readsFirst : s.trace.head? = some Op.readDir
  /-- exactly one digest write, of exactly `d`, to an entry `nm` that is bound to `n` afterwards -/
  target : ∃ nm e', s.tsm.lookup nm = some e' ∧ e'.bound = some n ∧ digestWrites s.trace = [(nm, d)] ∧
    -- an entry was bound already: it is re-used, nothing is created or bound
    (t.hasBound n → t.lookup nm = some e' ∧ s.tsm.entries = t.entries ∧ mkdirs s.trace = [] ∧ indexWrites s.trace = []) ∧
    -- none was: one entry is created (it did not exist before), bound by one index write, all others kept
    (¬ t.hasBound n → t.lookup nm = none ∧ mkdirs s.trace = [n] ∧ indexWrites s.trace = [(nm, itoa n)] ∧
      s.tsm.entries.length = t.entries.length + 1 ∧ ∀ x ∈ t.entries, x ∈ s.tsm.entries)

end Tdx.Rtmr
