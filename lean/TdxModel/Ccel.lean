/-
  TdxModel.Ccel — rtmr/ccel.go: `GetRtmrsFromTdQuote` and the gate sequencing of `ParseCcelWithTdQuote` (C18).
  The two gates (verify.TdxQuote, validate.TdxQuote) and the replay (go-eventlog) are parameters.
  Property-satisfying behaviour for finding F12: the RTMRs are read through nil-safe getters.
-/
import TdxModel.Abi

namespace Tdx.Ccel
open Tdx Tdx.Abi

/-- `register.RTMR{Index, Digest}` -/
abbrev Bank := List (Nat × Bytes)

/-- the loop of `getRtmrsFromTdQuoteV4`: append (index, rtmr), then fail if index > 3 -/
def bankLoop : Nat → List Bytes → Outcome Bank
  | _, [] => .ok []
  | i, r :: rest =>
    if i > 3 then .err "too many RTMRs in quote"
    else match bankLoop (i + 1) rest with
      | .ok b => .ok ((i, r) :: b)
      | .err e => .err e
      | .panic => .panic

/-- `GetRtmrsFromTdQuote` for a `*pb.QuoteV4` (`fixed`: getters; pinned tree: `quote.TdQuoteBody.Rtmrs` dereferences a nil body) -/
def getRtmrs (fixed : Bool) (q : Option QuoteV4) : Outcome Bank :=
  match q with
  | none => if fixed then .ok [] else .panic
  | some q =>
    match q.tdQuoteBody with
    | none => if fixed then .ok [] else .panic
    | some t => bankLoop 0 t.rtmrs

/-- what a Go function of type `(*State, error)` hands back: both, either or neither can be set.  go-eventlog's
    `ReplayAndExtract` returns a (partial) state TOGETHER with an error when the replay succeeded but an extraction step failed
    ("no GRUB measurements found" for a log without GRUB events) -/
structure GoRet (State : Type) where
  state : Option State
  err : Option String
deriving Repr, DecidableEq

/-- `ParseCcelWithTdQuote`: verify, validate, bank, replay — in this order; every failure before the replay returns
    `(nil, err)`; the replay's own pair is handed back unchanged (`return ccel.ReplayAndExtract(…)`) -/
def parseCcel {State : Type} (verify validate : Outcome Unit) (q : Option QuoteV4) (replay : Bank → Outcome (GoRet State)) :
    Outcome (GoRet State) :=
  match verify with
  | .panic => .panic
  | .err e => .ok ⟨none, some e⟩
  | .ok _ =>
    match validate with
    | .panic => .panic
    | .err e => .ok ⟨none, some e⟩
    | .ok _ =>
      match getRtmrs true q with
      | .panic => .panic
      | .err e => .ok ⟨none, some e⟩
      | .ok bank =>
        match replay bank with
        | .err e => .ok ⟨none, some e⟩     -- (convenience: an `Outcome.err` replay is the pair (nil, err))
        | r => r

end Tdx.Ccel
