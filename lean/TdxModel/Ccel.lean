/-
  TdxModel.Ccel — rtmr/ccel.go: `GetRtmrsFromTdQuote` and the gate sequencing of `ParseCcelWithTdQuote` (C18).
  The two gates (verify.TdxQuote, validate.TdxQuote) and the replay (go-eventlog) are parameters.
  Property-satisfying behaviour for finding F12: the RTMRs are read through nil-safe getters.
-/
import TdxModel.Abi

namespace Tdx.Ccel
open Tdx Tdx.Abi

/-- `register.RTMR{Index, Digest}` -/
abbrev Bank := List (Nat × Bytes)

/-- the loop of `getRtmrsFromTdQuoteV4`: append (index, rtmr), then fail if index > 3 -/
def bankLoop : Nat → List Bytes → Outcome Bank
  | _, [] => .ok []
  | i, r :: rest =>
    if i > 3 then .err "too many RTMRs in quote"
    else match bankLoop (i + 1) rest with
      | .ok b => .ok ((i, r) :: b)
      | .err e => .err e
      | .panic => .panic

/-- `GetRtmrsFromTdQuote` for a `*pb.QuoteV4` (`fixed`: getters; pinned tree: `quote.TdQuoteBody.Rtmrs` dereferences a nil body) -/
def getRtmrs (fixed : Bool) (q : Option QuoteV4) : Outcome Bank :=
  match q with
  | none => if fixed then .ok [] else .panic
  | some q =>
    match q.tdQuoteBody with
    | none => if fixed then .ok [] else .panic
    | some t => bankLoop 0 t.rtmrs

/-- `ParseCcelWithTdQuote`: verify, validate, bank, replay — in this order, a state only at the very end -/
def parseCcel {State : Type} (verify validate : Outcome Unit) (q : Option QuoteV4) (replay : Bank → Outcome State) : Outcome State :=
  verify >>= fun _ => validate >>= fun _ => getRtmrs true q >>= replay

end Tdx.Ccel
