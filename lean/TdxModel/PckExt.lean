/-
  TdxModel.PckExt — pcs/pcs.go: `PckCertificateExtensions`, `findMatchingExtension`,
  `extractSgxExtensions`, `extractAsn1SequenceTcbExtension`, `extractTcbExtension`,
  `extractAsn1OctetStringExtension`, `asn1OctetString`, `asn1U8`, `asn1U16`,
  `sgxTcbComponentOid` (C13).

  DER decoding is `encoding/asn1`'s and is a *parameter*: the model works over the decoded tree of
  the SGX extension value.  The tree keeps exactly the distinctions the Go code (through the
  `asn1.Unmarshal` targets it uses) can observe:

  * `asn1.RawValue` / `[]asn1.RawValue` : only tag/length framing is looked at; a universal
    constructed SEQUENCE whose content is a clean run of TLVs is `seq l`; one whose content has
    bytes after `l` that are not a TLV is `seqJunk l` (a `[]RawValue` target rejects it, a struct
    target never looks past the fields it needs — "we allow extra bytes at the end of the SEQUENCE").
  * `pkix.AttributeTypeAndValue{Type OID; Value any}` : first element a well-formed OID, second
    element parsed as ANY: universal primitive INTEGER → int64 (error beyond 8 bytes), OCTET STRING →
    []byte, everything else either another Go type or nil (`other`, `enum`, `bool`, `seq`: never an
    int64 or []byte), or an error when the content of a primitive is malformed for its type (`bad`).
  * `pkix.Extension{Id OID; Critical bool optional; Value []byte}` : OID, then an optional
    universal primitive BOOLEAN (`bool wf`, error when not well formed), then a universal primitive
    OCTET STRING whose *content* becomes `ext.Value`.
  * `asn1OctetString` is the one place where the code decodes DER out of a value it extracted
    (`asn1.Unmarshal(ext.Value, &[]byte)`); `unmarshalOctetString` models that decoding on bytes
    (tag byte, short/long length form with Go's minimality rules, rest).

  O-4 and O-4b (DESIGN.md §7) are modelled as the code behaves: an absent item/component silently
  stays at its zero value; an octet-string item whose value is a wrapped OCTET STRING of the wanted
  size is unwrapped.  No Go path here can panic; the model never returns `panic` (theorem
  `extract_never_panics`).
-/
import TdxModel.Basic
import TdxModel.Generated.Consts

namespace Tdx.PckExt
open Tdx

/-- decoded ASN.1 tree of (a part of) the SGX extension value -/
inductive Asn1 where
  | int (v : Int)              -- universal primitive INTEGER, well-formed (minimal) content of any size
  | octets (b : Bytes)         -- universal primitive OCTET STRING
  | oid (o : List Nat)         -- universal primitive OBJECT IDENTIFIER, well-formed
  | enum (v : Int)             -- universal primitive ENUMERATED
  | bool (wf : Bool)           -- universal primitive BOOLEAN; `wf`: one byte, 0x00 or 0xff
  | seq (l : List Asn1)        -- universal constructed SEQUENCE whose content is exactly the TLVs `l`
  | seqJunk (l : List Asn1)    -- … whose content is the TLVs `l` followed by bytes that are no TLV
  | other                      -- any other TLV (ANY yields nil or a Go value that is neither int64 nor []byte)
  | bad                        -- universal primitive whose content ANY / OID parsing rejects

instance : Inhabited Asn1 := ⟨.other⟩

/-- `sgxExt.Value` as `asn1.Unmarshal` sees it -/
inductive ExtVal where
  | derError                              -- the first TLV is not framed correctly
  | tree (t : Asn1) (trailing : Bool)     -- first TLV, and whether bytes remain after it

structure Cert where
  exts : List (List Nat × ExtVal)         -- `cert.Extensions`: (Id, Value)

/-- `pcs.PckCertTCB` -/
structure Tcb where
  pcesvn : Nat := 0
  cpusvn : Bytes := []
  comps : Bytes := []
deriving Repr, DecidableEq

/-- `pcs.PckExtensions` (strings are lower-case hex) -/
structure PckExtensions where
  ppid : String := ""
  tcb : Tcb := {}
  pceid : String := ""
  fmspc : String := ""
deriving Repr, DecidableEq

def bindO {α β} (x : Outcome α) (f : α → Outcome β) : Outcome β :=
  match x with
  | .ok a => f a
  | .err e => .err e
  | .panic => .panic

@[simp] theorem bindO_ok {α β} (a : α) (f : α → Outcome β) : bindO (.ok a) f = f a := rfl
@[simp] theorem bindO_err {α β} (e : String) (f : α → Outcome β) : bindO (.err e) f = .err e := rfl
@[simp] theorem bindO_panic {α β} (f : α → Outcome β) : bindO (.panic : Outcome α) f = .panic := rfl

/-- `for _, x := range l { if err := step(...); err != nil { return err } }` -/
def foldO {σ α} (step : σ → α → Outcome σ) : List α → σ → Outcome σ
  | [], s => .ok s
  | a :: l, s => bindO (step s a) (foldO step l)

/-! ### constants (all from the extractor) -/

def oidSgx : List Nat := Gen.pcs_OidSgxExtension
def oidPPID : List Nat := Gen.pcs_OidPPID
def oidTCB : List Nat := Gen.pcs_OidTCB
def oidPCEID : List Nat := Gen.pcs_OidPCEID
def oidFMSPC : List Nat := Gen.pcs_OidFMSPC
def oidPCESvn : List Nat := Gen.pcs_OidPCESvn
def oidCPUSvn : List Nat := Gen.pcs_OidCPUSvn
def compPrefix : List Nat := Gen.pcs_sgxTcbComponentOidPrefix
def nComps : Nat := Gen.pcs_tcbComponentSize
def ppidSize : Nat := Gen.pcs_ppidSize
def pceidSize : Nat := Gen.pcs_pceIDSize
def fmspcSize : Nat := Gen.pcs_fmspcSize
def cpuSvnSize : Nat := Gen.pcs_cpuSvnSize

/-- `sgxTcbComponentOid(component)` -/
def compOid (component : Nat) : List Nat := compPrefix ++ [component]

/-! ### the `asn1.Unmarshal` targets the code uses, over trees -/

/-- an INTEGER fits `parseInt64` (at most 8 content bytes) -/
def isInt64 (v : Int) : Bool := decide (-9223372036854775808 ≤ v ∧ v ≤ 9223372036854775807)

/-- parsing a TLV as ANY succeeds -/
def anyOk : Asn1 → Bool
  | .int v => isInt64 v
  | .bad => false
  | _ => true

/-- elements of a universal constructed SEQUENCE as a *struct* target sees them -/
def seqElems : Asn1 → Option (List Asn1)
  | .seq l => some l
  | .seqJunk l => some l
  | _ => none

/-- `asn1.Unmarshal(x.FullBytes, &pkix.AttributeTypeAndValue{})` (rest is always empty) -/
def unmarshalATV (t : Asn1) : Outcome (List Nat × Asn1) :=
  match seqElems t with
  | some (.oid o :: x :: _) => if anyOk x then .ok (o, x) else .err "asn1: ANY value"
  | _ => .err "asn1: AttributeTypeAndValue"

/-- `asn1.Unmarshal(x.FullBytes, &[]asn1.RawValue{})` -/
def unmarshalRawSeq : Asn1 → Outcome (List Asn1)
  | .seq l => .ok l
  | _ => .err "asn1: SEQUENCE OF RawValue"

/-- `asn1.Unmarshal(x.FullBytes, &pkix.Extension{})`: (Id, Value) -/
def unmarshalExtension (t : Asn1) : Outcome (List Nat × Bytes) :=
  match seqElems t with
  | some (.oid o :: .bool true :: .octets v :: _) => .ok (o, v)
  | some (.oid o :: .octets v :: _) => .ok (o, v)
  | _ => .err "asn1: pkix.Extension"

/-! ### `asn1.Unmarshal(ext.Value, &octet)` on bytes (`parseTagAndLength` for tag 0x04) -/

/-- long-form length: `n` more length bytes, accumulated value `acc` -/
def longLen : Nat → Nat → Bytes → Outcome (Nat × Bytes)
  | 0, acc, rest => if acc < 128 then .err "asn1: non-minimal length" else .ok (acc, rest)
  | _ + 1, _, [] => .err "asn1: truncated tag or length"
  | n + 1, acc, b :: rest =>
    if acc ≥ 8388608 then .err "asn1: length too large"
    else
      let acc' := acc * 256 + b.toNat
      if acc' = 0 then .err "asn1: superfluous leading zeros in length" else longLen n acc' rest

/-- the length octets following the tag: (length, bytes after the length octets) -/
def parseLength : Bytes → Outcome (Nat × Bytes)
  | [] => .err "asn1: truncated tag or length"
  | b :: rest =>
    if b.toNat < 128 then .ok (b.toNat, rest)
    else if b.toNat = 128 then .err "asn1: indefinite length"
    else longLen (b.toNat - 128) 0 rest

/-- `rest, err := asn1.Unmarshal(v, &octet)` with `octet []byte`: (octet, rest).  A first byte other
    than 0x04 is either no valid tag/length or a tag that is not the universal primitive OCTET STRING
    (a long-form encoding of tag 4 is rejected as non-minimal): an error in every case. -/
def unmarshalOctetString : Bytes → Outcome (Bytes × Bytes)
  | [] => .err "asn1: sequence truncated"
  | t :: rest =>
    if t ≠ 4 then .err "asn1: tags don't match"
    else bindO (parseLength rest) fun (len, body) =>
      if len > body.length then .err "asn1: data truncated" else .ok (body.take len, body.drop len)

/-- `asn1OctetString(ext, field, size)` on `ext.Value = v` (O-4b) -/
def asn1OctetString (v : Bytes) (size : Nat) : Outcome Bytes :=
  if v.length = size then .ok v
  else bindO (unmarshalOctetString v) fun (octet, rest) =>
    if rest.length ≠ 0 then .err "leftover bytes in extension value"
    else if octet.length ≠ size then .err "extension's value size"
    else .ok octet

/-- `asn1U8(&tcbValue, …)` on `tcbValue.Value` -/
def asn1U8 : Asn1 → Outcome UInt8
  | .int v => if v < 0 ∨ v > 255 then .err "int value isn't a byte" else .ok (UInt8.ofNat v.toNat)
  | _ => .err "expected int64"

/-- `asn1U16(&tcbValue, …)` -/
def asn1U16 : Asn1 → Outcome Nat
  | .int v => if v < 0 ∨ v > 65535 then .err "int value isn't a uint16" else .ok v.toNat
  | _ => .err "expected int64"

/-! ### pcs.go -/

/-- the `for i := 0; i < tcbComponentSize; i++ { if Type.Equal(sgxTcbComponentOid(i+1)) … break }` search -/
def compIndex (o : List Nat) : Option Nat :=
  (List.range nComps).find? fun i => o == compOid (i + 1)

/-- one iteration of the loop of `extractTcbExtension` -/
def tcbStep (acc : Tcb) (t : Asn1) : Outcome Tcb :=
  bindO (unmarshalATV t) fun (o, x) =>
  bindO (match compIndex o with
    | some i => bindO (asn1U8 x) fun b => .ok { acc with comps := acc.comps.set i b }
    | none => .ok acc) fun acc =>
  bindO (if o = oidPCESvn then bindO (asn1U16 x) fun n => .ok { acc with pcesvn := n } else .ok acc) fun acc =>
  if o = oidCPUSvn then
    match x with
    | .octets b => if b.length ≠ cpuSvnSize then .err "CPUSVN size" else .ok { acc with cpusvn := b }
    | _ => .err "CPUSVN type"
  else .ok acc

def tcbInit : Tcb := { pcesvn := 0, cpusvn := [], comps := zeros nComps }

/-- `extractTcbExtension` -/
def extractTcbExtension (l : List Asn1) : Outcome Tcb := foldO tcbStep l tcbInit

/-- `extractAsn1SequenceTcbExtension(ext)` -/
def extractTcb (t : Asn1) : Outcome Tcb :=
  bindO (unmarshalRawSeq t) fun s =>
  match s with
  | [_, inner] =>
    bindO (unmarshalRawSeq inner) fun l =>
    if l.length ≠ Gen.pcs_tcbExtensionSize then .err "TCB extension size" else extractTcbExtension l
  | _ => .err "TCB extension when unmarshalled is not of size 2"

/-- `extractAsn1OctetStringExtension(name, extension, size)` -/
def extractOctetItem (t : Asn1) (size : Nat) : Outcome String :=
  bindO (unmarshalExtension t) fun (_, v) =>
  bindO (asn1OctetString v size) fun b => .ok (hexOf b)

/-- one iteration of the loop of `extractSgxExtensions` -/
def sgxStep (acc : PckExtensions) (t : Asn1) : Outcome PckExtensions :=
  bindO (unmarshalATV t) fun (o, _) =>
  bindO (if o = oidPPID then bindO (extractOctetItem t ppidSize) fun s => .ok { acc with ppid := s } else .ok acc) fun acc =>
  bindO (if o = oidTCB then bindO (extractTcb t) fun tcb => .ok { acc with tcb := tcb } else .ok acc) fun acc =>
  bindO (if o = oidPCEID then bindO (extractOctetItem t pceidSize) fun s => .ok { acc with pceid := s } else .ok acc) fun acc =>
  if o = oidFMSPC then bindO (extractOctetItem t fmspcSize) fun s => .ok { acc with fmspc := s } else .ok acc

/-- `extractSgxExtensions(extensions)` -/
def extractSgxExtensions (l : List Asn1) : Outcome PckExtensions :=
  if l.length < Gen.pcs_sgxExtensionMinSize then .err "SGX Extension too short"
  else foldO sgxStep l {}

/-- `findMatchingExtension(extns, oid)` -/
def findMatchingExtension (exts : List (List Nat × ExtVal)) (oid : List Nat) : Option ExtVal :=
  (exts.find? fun e => e.1 == oid).map (·.2)

/-- `PckCertificateExtensions(cert)` -/
def pckCertificateExtensions (c : Cert) : Outcome PckExtensions :=
  if c.exts.length ≠ Gen.pcs_pckCertExtensionSize then .err "PCK certificate extensions length"
  else match findMatchingExtension c.exts oidSgx with
    | none => .err "could not find SGX extension"
    | some .derError => .err "could not parse SGX extension"
    | some (.tree t trailing) =>
      bindO (unmarshalRawSeq t) fun l =>
      if trailing then .err "leftover bytes" else extractSgxExtensions l

end Tdx.PckExt
