/-
  TdxModel.Validate — validate/validate.go: `TdxQuote` (policy validation of a quote message) and
  `PolicyToOptions`, Go-faithful: same case structure, eager evaluation of all `multierr.Combine`
  arguments, `panic` where Go would index out of range.

  Property-satisfying behaviour for `MinimumTeeTcbSvn` (finding F7): an empty value is unchecked, a
  non-empty value of the wrong length is an error, and `PolicyToOptions` length-checks the field.
  `…Unfixed` definitions are the pinned tree.
-/
import TdxModel.Abi

namespace Tdx.Validate
open Tdx Tdx.Gen Tdx.Abi

/-- validate.Options; `none` = nil byte slice (the code distinguishes nil from empty in two places) -/
structure Options where
  minimumQeSvn : Nat := 0
  minimumPceSvn : Nat := 0
  qeVendorId : Option Bytes := none
  minimumTeeTcbSvn : Option Bytes := none
  mrSeam : Option Bytes := none
  tdAttributes : Option Bytes := none
  xfam : Option Bytes := none
  mrTd : Option Bytes := none
  mrConfigId : Option Bytes := none
  mrOwner : Option Bytes := none
  mrOwnerConfig : Option Bytes := none
  rtmrs : List Bytes := []
  reportData : Option Bytes := none
  anyMrTd : List Bytes := []
deriving Repr, DecidableEq, Inhabited

/-- `len(x)` of a possibly-nil slice -/
def olen (o : Option Bytes) : Nat := (o.getD []).length
def obytes (o : Option Bytes) : Bytes := o.getD []

/-- `byteCheck(option, field, size, given, required)` -/
def byteCheck (size : Nat) (given required : Bytes) : Outcome Unit :=
  if required.length == 0 then .ok ()
  else if required.length != size then .err "option size"
  else if required != given then .err "field mismatch"
  else .ok ()

/-- `byteCheckRtmr(size, given, required)`: the loop returns at the first failing entry; `given[i]` is a Go index -/
def byteCheckRtmrLoop (size : Nat) (given : List Bytes) : Nat → List Bytes → Outcome Unit
  | _, [] => .ok ()
  | i, bs :: rest =>
    match given[i]? with
    | none => .panic
    | some g => do
      byteCheck size g bs
      byteCheckRtmrLoop size given (i + 1) rest

def byteCheckRtmr (size : Nat) (given required : List Bytes) : Outcome Unit :=
  if required.length == 0 then .ok ()
  else if required.length != validate_rtmrsCount then .err "rtmrs count"
  else byteCheckRtmrLoop size given 0 required

/-- `byteCheckAny`: the first allowed value that matches wins -/
def byteCheckAny (size : Nat) (given : Bytes) (allowed : List Bytes) : Outcome Unit :=
  if allowed.length == 0 then .ok ()
  else if allowed.any (fun bs => (byteCheck size given bs).isOk) then .ok ()
  else .err "no AnyMrTd matched"

/-- `multierr.Combine(a, b, …)`: Go evaluates every argument first (a panic in any of them
    propagates), then the result is nil iff all are nil -/
def combine (rs : List (Outcome Unit)) : Outcome Unit :=
  if rs.any (·.isPanic) then .panic
  else if rs.any (·.isErr) then .err "combined"
  else .ok ()

def exactByteMatch (h : Header) (t : TdQuoteBody) (o : Options) : Outcome Unit :=
  combine [
    byteCheck abi_MrSeamSize t.mrSeam (obytes o.mrSeam),
    byteCheck abi_TdAttributesSize t.tdAttributes (obytes o.tdAttributes),
    byteCheck abi_XfamSize t.xfam (obytes o.xfam),
    byteCheck abi_MrTdSize t.mrTd (obytes o.mrTd),
    byteCheck abi_MrConfigIDSize t.mrConfigId (obytes o.mrConfigId),
    byteCheck abi_MrOwnerSize t.mrOwner (obytes o.mrOwner),
    byteCheck abi_MrOwnerConfigSize t.mrOwnerConfig (obytes o.mrOwnerConfig),
    byteCheckRtmr abi_RtmrSize t.rtmrs o.rtmrs,
    byteCheckAny abi_MrTdSize t.mrTd o.anyMrTd,
    byteCheck abi_ReportDataSize t.reportData (obytes o.reportData),
    byteCheck abi_QeVendorIDSize h.qeVendorId (obytes o.qeVendorId)]

/-- `for i := range quoteSvn { if quoteSvn[i] < optionSvn[i] { return false } }` — `optionSvn[i]` is a Go index -/
def svnLoop : List UInt8 → Nat → Bytes → Outcome Bool
  | [], _, _ => .ok true
  | q :: qs, i, opt =>
    match opt[i]? with
    | none => .panic
    | some o => if q < o then .ok false else svnLoop qs (i + 1) opt

/-- property-satisfying `isSvnHigherOrEqual`: an empty option is unchecked -/
def isSvnHigherOrEqual (quoteSvn : Bytes) (optionSvn : Option Bytes) : Outcome Bool :=
  if olen optionSvn == 0 then .ok true else svnLoop quoteSvn 0 (obytes optionSvn)

/-- pinned tree: only a nil option is unchecked (F7) -/
def isSvnHigherOrEqualUnfixed (quoteSvn : Bytes) (optionSvn : Option Bytes) : Outcome Bool :=
  match optionSvn with
  | none => .ok true
  | some o => svnLoop quoteSvn 0 o

/-- `binary.LittleEndian.Uint16(b)`: panics on fewer than two bytes -/
def goLE16 (b : Bytes) : Outcome Nat :=
  match b with
  | x :: y :: _ => .ok (x.toNat + 256 * y.toNat)
  | _ => .panic

def minVersionCheck' (fixed : Bool) (h : Header) (t : TdQuoteBody) (o : Options) : Outcome Unit := do
  if fixed then
    guard' (olen o.minimumTeeTcbSvn == 0 || olen o.minimumTeeTcbSvn == abi_TeeTcbSvnSize) "MinimumTeeTcbSvn size"
  let okSvn ← if fixed then isSvnHigherOrEqual t.teeTcbSvn o.minimumTeeTcbSvn
              else isSvnHigherOrEqualUnfixed t.teeTcbSvn o.minimumTeeTcbSvn
  guard' okSvn "tee tcb svn below minimum"
  let qeSvn ← goLE16 h.qeSvn
  let pceSvn ← goLE16 h.pceSvn
  guard' (!(Nat.blt qeSvn o.minimumQeSvn)) "qe svn below minimum"
  guard' (!(Nat.blt pceSvn o.minimumPceSvn)) "pce svn below minimum"

/-- `validateXfam` / `validateTdAttributes` (same shape): fixed-1 bits must be set, only fixed-0 bits may be set -/
def validateMask (size : Nat) (value : Bytes) (fixed1 fixed0 : BitVec 64) : Outcome Unit :=
  if value.length == 0 then .ok ()
  else if value.length != size then .err "mask field size"
  else
    let x := le64 value
    if x &&& fixed1 != fixed1 then .err "fixed1 bits unset"
    else if x &&& ~~~fixed0 != 0#64 then .err "fixed0 bits set"
    else .ok ()

def xfamFixed1 : BitVec 64 := BitVec.ofNat 64 validate_xfamFixed1
def xfamFixed0 : BitVec 64 := BitVec.ofNat 64 validate_xfamFixed0
def tdAttrFixed1 : BitVec 64 := BitVec.ofNat 64 validate_tdAttributesFixed1
def tdAttrFixed0 : BitVec 64 := BitVec.ofNat 64 validate_tdAttributesFixed0

/-- `validate.tdxQuoteV4` after `CheckQuoteV4` succeeded; the getters of absent sub-messages return zero values -/
def validateChecked' (fixed : Bool) (q : QuoteV4) (o : Options) : Outcome Unit :=
  let h := q.header.getD default
  let t := q.tdQuoteBody.getD default
  combine [
    exactByteMatch h t o,
    minVersionCheck' fixed h t o,
    validateMask abi_XfamSize t.xfam xfamFixed1 xfamFixed0,
    validateMask abi_TdAttributesSize t.tdAttributes tdAttrFixed1 tdAttrFixed0]

/-- `validate.TdxQuote(quote, options)` for a `*pb.QuoteV4` (`none` = typed nil) and options (`none` = nil) -/
def validate' (fixed : Bool) (q : Option QuoteV4) (o : Option Options) : Outcome Unit :=
  match o with
  | none => .err "options nil"
  | some o => do
    checkQuoteV4 q
    match q with
    | none => .err "unreachable: nil quote passes no check"
    | some q => validateChecked' fixed q o

def validate (q : Option QuoteV4) (o : Option Options) : Outcome Unit := validate' true q o
def validateUnfixed (q : Option QuoteV4) (o : Option Options) : Outcome Unit := validate' false q o

/-! ### PolicyToOptions -/

structure HeaderPolicy where
  minimumQeSvn : Nat := 0      -- uint32 in the message
  minimumPceSvn : Nat := 0
  qeVendorId : Option Bytes := none
deriving Repr, DecidableEq, Inhabited

structure TdBodyPolicy where
  minimumTeeTcbSvn : Option Bytes := none
  mrSeam : Option Bytes := none
  tdAttributes : Option Bytes := none
  xfam : Option Bytes := none
  mrTd : Option Bytes := none
  mrConfigId : Option Bytes := none
  mrOwner : Option Bytes := none
  mrOwnerConfig : Option Bytes := none
  rtmrs : List Bytes := []
  reportData : Option Bytes := none
  anyMrTd : List Bytes := []
deriving Repr, DecidableEq, Inhabited

structure Policy where
  headerPolicy : Option HeaderPolicy := none
  tdQuoteBodyPolicy : Option TdBodyPolicy := none
deriving Repr, DecidableEq, Inhabited

/-- `lengthCheck`: `value != nil && len(value) != length` is an error -/
def lengthCheck (length : Nat) (value : Option Bytes) : Outcome Unit :=
  match value with
  | none => .ok ()
  | some v => guard' (v.length == length) "option length"

/-- `lengthCheckMany` -/
def lengthCheckMany (count : Option Nat) (length : Nat) (value : List Bytes) : Outcome Unit :=
  if value.length == 0 then .ok ()
  else do
    match count with
    | some c => guard' (value.length == c) "option count"
    | none => pure ()
    guard' (value.all fun v => v.length == 0 || v.length == length) "option entry length"

def checkOptionsLengths' (fixed : Bool) (o : Options) : Outcome Unit :=
  combine ((if fixed then [lengthCheck abi_TeeTcbSvnSize o.minimumTeeTcbSvn] else []) ++ [
    lengthCheck abi_MrSeamSize o.mrSeam,
    lengthCheck abi_TdAttributesSize o.tdAttributes,
    lengthCheck abi_XfamSize o.xfam,
    lengthCheck abi_MrTdSize o.mrTd,
    lengthCheck abi_MrConfigIDSize o.mrConfigId,
    lengthCheck abi_MrOwnerSize o.mrOwner,
    lengthCheck abi_MrOwnerConfigSize o.mrOwnerConfig,
    lengthCheck abi_ReportDataSize o.reportData,
    lengthCheck abi_QeVendorIDSize o.qeVendorId,
    lengthCheckMany (some validate_rtmrsCount) abi_RtmrSize o.rtmrs,
    lengthCheckMany none abi_MrTdSize o.anyMrTd])

/-- the options that read the policy field by field (nil-safe getters: absent sub-policies read as zero values) -/
def optionsOf (p : Option Policy) : Options :=
  let hp := (p.bind (·.headerPolicy)).getD {}
  let tp := (p.bind (·.tdQuoteBodyPolicy)).getD {}
  { minimumQeSvn := hp.minimumQeSvn, minimumPceSvn := hp.minimumPceSvn, qeVendorId := hp.qeVendorId,
    minimumTeeTcbSvn := tp.minimumTeeTcbSvn, mrSeam := tp.mrSeam, tdAttributes := tp.tdAttributes, xfam := tp.xfam,
    mrTd := tp.mrTd, mrConfigId := tp.mrConfigId, mrOwner := tp.mrOwner, mrOwnerConfig := tp.mrOwnerConfig,
    rtmrs := tp.rtmrs, reportData := tp.reportData, anyMrTd := tp.anyMrTd }

def policyToOptions' (fixed : Bool) (p : Option Policy) : Outcome Options := do
  let o := optionsOf p
  guard' (!(Nat.blt 65535 o.minimumQeSvn)) "minimum_qe_svn range"
  guard' (!(Nat.blt 65535 o.minimumPceSvn)) "minimum_pce_svn range"
  checkOptionsLengths' fixed o
  pure o

def policyToOptions (p : Option Policy) : Outcome Options := policyToOptions' true p
def policyToOptionsUnfixed (p : Option Policy) : Outcome Options := policyToOptions' false p

end Tdx.Validate
