/-
  TdxModel.Retry — `trust.RetryHTTPSGetter.Get` (verify/trust/trust.go) in virtual time (C20).

      delay := 2 * time.Second
      ctx, cancel := context.WithTimeout(context.Background(), n.Timeout)
      for {
        header, body, err := n.Getter.Get(url)
        if err == nil { cancel(); return header, body, nil }
        delay = delay + delay
        if delay > n.MaxRetryDelay { delay = n.MaxRetryDelay }
        select {
        case <-ctx.Done():        cancel(); return nil, nil, fmt.Errorf("timeout")
        case <-time.After(delay):
        }
      }

  Conventions
  * Times are `Int` nanoseconds measured from the entry of `Get` (start = 0), so the context's
    deadline is `Timeout` itself; `Timeout` and `MaxRetryDelay` may be ≤ 0.  A context made with a
    timeout ≤ 0 is done from the beginning — here: every instant `t ≥ 0` satisfies `Timeout ≤ t`.
  * The wrapped getter is a *script* `Nat → Call ρ`: the k-th call (0-based) takes `dur` ns and
    either fails (`resp = none`) or succeeds with the response `some r`.  `ρ` is an abstract payload
    (headers and body); the model can only pass it on.  Scripts are total functions, so the theorems
    cover infinite behaviours; the line-protocol driver builds them from a finite list with
    `ofList`, after whose end the LAST entry repeats (an empty list is "fail at once forever").
  * `time.After(d)` with `d ≤ 0` fires immediately (`timerWait`).
  * `select`: `ctx.Done()` is ready iff the deadline has been reached, the timer iff the wait is
    over.  When the select is reached with only the timer pending it sleeps until the earlier of
    the two; when both become ready at the same virtual instant Go picks either: `tie k` resolves
    it for the select after the k-th call (`true` = the timer wins, i.e. another attempt).
  * No `int64` overflow: `delay + delay` is at most `2 * MaxRetryDelay` once capped, so the Go code
    agrees with this as long as `|MaxRetryDelay| < 2^62 ns` (146 years).  For `MaxRetryDelay < 0`
    Go's delay keeps doubling downwards and eventually wraps, is then capped to the negative
    maximum again; it stays ≤ 0 throughout, as it does here, and only its sign is observable.
  * `fuel` bounds the number of calls; `Res.outOfFuel` means the bound was hit (see
    `Tdx.Props.C20.terminates` for when that cannot happen and `max_zero_spins_witness` for when it
    always does).

  The code violates C20 for `MaxRetryDelay ≤ 0 < Timeout` (finding F13: zero-length waits, a busy
  loop until the deadline).  The specification clauses conflict there ("never wait longer than
  Max" vs "never busy-loop"), the finding is recorded as *known* and not repaired, so this model
  follows the code for those configurations as well.
-/
import TdxModel.Generated.Consts

namespace Tdx.Retry

structure Cfg where
  timeout : Int
  maxDelay : Int
deriving Repr, DecidableEq

/-- behaviour of one call of the wrapped getter -/
structure Call (ρ : Type) where
  dur : Nat
  resp : Option ρ
deriving Repr, DecidableEq

inductive Res (ρ : Type) where
  /-- the k-th call (0-based) succeeded with `r`; `Get` returned `r` at time `at_` -/
  | success (k : Nat) (r : ρ) (at_ : Int)
  /-- `Get` returned the timeout error at `at_` after `calls` calls -/
  | timeout (calls : Nat) (at_ : Int)
  | outOfFuel
deriving Repr, DecidableEq

/-- What an observer of the wrapped getter and of `Get`'s return sees. `calls[i]` is the start time
    of the i-th call, `waits[i]` the time between the end of call i and the start of call i+1. -/
structure Trace (ρ : Type) where
  calls : List Int
  waits : List Int
  res : Res ρ
deriving Repr, DecidableEq

/-- `delay := 2 * time.Second` -/
def initialDelay : Int := Int.ofNat Tdx.Gen.verify_trust_local_RetryHTTPSGetter_Get_delay

/-- `delay = delay + delay; if delay > n.MaxRetryDelay { delay = n.MaxRetryDelay }` -/
def nextDelay (c : Cfg) (delay : Int) : Int :=
  let d := delay + delay
  if d > c.maxDelay then c.maxDelay else d

/-- how long `<-time.After(d)` blocks -/
def timerWait (d : Int) : Int := if d ≤ 0 then 0 else d

inductive Step (ρ : Type) where
  | done (r : Res ρ)
  /-- wait `w`, then call again at `now'` -/
  | retry (w : Int) (now' : Int)
deriving Repr, DecidableEq

/-- One iteration of the loop: the k-th call starts at `now` with the current `delay`. -/
def step (c : Cfg) (call : Call ρ) (tieK : Bool) (now delay : Int) (k : Nat) : Step ρ :=
  let t := now + call.dur                       -- the call returns
  match call.resp with
  | some r => .done (.success k r t)
  | none =>
    let w := timerWait (nextDelay c delay)
    if c.timeout ≤ t then
      -- ctx.Done() is ready when the select is reached; the timer is ready as well iff w = 0
      if w = 0 ∧ tieK = true then .retry w t else .done (.timeout (k + 1) t)
    else if t + w < c.timeout then .retry w (t + w)                -- the timer fires first
    else if t + w = c.timeout ∧ tieK = true then .retry w (t + w)  -- both at once, timer picked
    else .done (.timeout (k + 1) c.timeout)                        -- the deadline fires (first)

def Trace.push (now w : Int) (t : Trace ρ) : Trace ρ :=
  { t with calls := now :: t.calls, waits := w :: t.waits }

/-- The loop from the state "about to make call `k` at time `now` with `delay`". -/
def run (c : Cfg) (script : Nat → Call ρ) (tie : Nat → Bool) : (fuel : Nat) → (now delay : Int) → (k : Nat) → Trace ρ
  | 0, _, _, _ => ⟨[], [], .outOfFuel⟩
  | fuel + 1, now, delay, k =>
    match step c (script k) (tie k) now delay k with
    | .done r => ⟨[now], [], r⟩
    | .retry w now' => (run c script tie fuel now' (nextDelay c delay) (k + 1)).push now w

/-- `RetryHTTPSGetter{Timeout, MaxRetryDelay, Getter: script}.Get(url)` entered at time 0. -/
def get (c : Cfg) (script : Nat → Call ρ) (tie : Nat → Bool) (fuel : Nat) : Trace ρ :=
  run c script tie fuel 0 initialDelay 0

/-- finite script; after its end the last entry repeats (empty: fail at once, forever) -/
def ofList (l : List (Call ρ)) : Nat → Call ρ := fun k =>
  match l[k]? with
  | some c => c
  | none => l.getLast?.getD ⟨0, none⟩

def ofBits (l : List Bool) : Nat → Bool := fun k => l.getD k false

/-- `DefaultHTTPSGetter()`'s configuration -/
def defaultCfg : Cfg :=
  { timeout := Int.ofNat Tdx.Gen.verify_trust_default_Timeout,
    maxDelay := Int.ofNat Tdx.Gen.verify_trust_default_MaxRetryDelay }

end Tdx.Retry
