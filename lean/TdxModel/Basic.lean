/-
  TdxModel.Basic — the vocabulary every model file shares.

  * `Bytes`      : Go `[]byte` whose capacity equals its length (what `abi.clone` returns).
  * `Outcome α`  : what a Go function call can do: return a value, return an error (class
                   string, diagnostic only), or panic (out-of-range slice/index, nil deref).
  * `slice`      : Go `b[lo:hi]`; panics unless `lo ≤ hi ≤ len b`.
  * little-endian readers/writers for the 16/32/64-bit fields of the quote layout.

  Core Lean only (no Mathlib): this file is linked into the `tdxmodel` executable.
-/
namespace Tdx

abbrev Bytes := List UInt8

inductive Outcome (α : Type) where
  | ok : α → Outcome α
  | err : String → Outcome α
  | panic : Outcome α
deriving Repr, DecidableEq

namespace Outcome
def isOk {α} : Outcome α → Bool
  | .ok _ => true
  | _ => false
def isErr {α} : Outcome α → Bool
  | .err _ => true
  | _ => false
def isPanic {α} : Outcome α → Bool
  | .panic => true
  | _ => false
end Outcome

instance : Monad Outcome where
  pure := .ok
  bind x f := match x with
    | .ok a => f a
    | .err e => .err e
    | .panic => .panic

/-- Go `b[lo:hi]` on a slice with cap = len. -/
def slice (b : Bytes) (lo hi : Nat) : Outcome Bytes :=
  if lo ≤ hi ∧ hi ≤ b.length then .ok ((b.take hi).drop lo) else .panic

/-- Go `b[lo:]`. -/
def sliceFrom (b : Bytes) (lo : Nat) : Outcome Bytes := slice b lo b.length

/-- Go `b[i]`. -/
def index (b : Bytes) (i : Nat) : Outcome UInt8 :=
  match b[i]? with
  | some x => .ok x
  | none => .panic

/-- `if !c { return err }`. -/
def guard' (c : Bool) (e : String) : Outcome Unit := if c then .ok () else .err e

def zeros (n : Nat) : Bytes := List.replicate n 0

/-- `binary.LittleEndian.Uint16` of a 2-byte slice (0 on any other length; callers slice first). -/
def le16 (b : Bytes) : Nat := match b with
  | [x, y] => x.toNat + 256 * y.toNat
  | _ => 0
def toLE16 (n : Nat) : Bytes := [UInt8.ofNat (n % 256), UInt8.ofNat (n / 256 % 256)]

def le32 (b : Bytes) : Nat := match b with
  | [x, y, z, w] => x.toNat + 256 * y.toNat + 65536 * z.toNat + 16777216 * w.toNat
  | _ => 0
def toLE32 (n : Nat) : Bytes :=
  [UInt8.ofNat (n % 256), UInt8.ofNat (n / 256 % 256), UInt8.ofNat (n / 65536 % 256),
   UInt8.ofNat (n / 16777216 % 256)]

/-- little-endian value of a byte string of any length -/
def leNat : Bytes → Nat
  | [] => 0
  | x :: xs => x.toNat + 256 * leNat xs

/-- `binary.LittleEndian.Uint64` of an 8-byte slice as a bit vector. -/
def le64 (b : Bytes) : BitVec 64 := BitVec.ofNat 64 (leNat b)

/-! ### hex (used by the driver and by `hex.EncodeToString` in the module-identity id) -/

def hexDigit (n : Nat) : Char :=
  if n < 10 then Char.ofNat (48 + n) else Char.ofNat (87 + n)

def hexByte (b : UInt8) : String :=
  String.ofList [hexDigit (b.toNat / 16), hexDigit (b.toNat % 16)]

def hexOf (b : Bytes) : String := String.join (b.map hexByte)

def hexVal (c : Char) : Option Nat :=
  if '0' ≤ c ∧ c ≤ '9' then some (c.toNat - 48)
  else if 'a' ≤ c ∧ c ≤ 'f' then some (c.toNat - 87)
  else if 'A' ≤ c ∧ c ≤ 'F' then some (c.toNat - 55)
  else none

def unhexChars : List Char → Option Bytes
  | [] => some []
  | [_] => none
  | a :: b :: rest => do
    let x ← hexVal a
    let y ← hexVal b
    let r ← unhexChars rest
    pure (UInt8.ofNat (16 * x + y) :: r)

def unhex (s : String) : Option Bytes := unhexChars s.toList

end Tdx
