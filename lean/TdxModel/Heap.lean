/-
  TdxModel.Heap — Go byte buffers with identity, slices (buffer, offset, len, cap), Go `append`
  (in place iff len + n ≤ cap, otherwise a fresh buffer), and a write log (C16).

  Heap-level models of the check-side functions that build byte strings out of quote fields:
  `verifyHash256` (repaired: concatenates into a fresh buffer; `…Unfixed`: `append(attestKey, qeAuthData...)`,
  finding F3), `getHeaderAndTdQuoteBodyInAbiBytes`, `applyMask`, `clone`.
-/
import TdxModel.Basic

namespace Tdx.Heap
open Tdx

structure Slice where
  buf : Nat
  off : Nat
  len : Nat
  cap : Nat
deriving Repr, DecidableEq

structure Heap where
  bufs : List Bytes
deriving Repr, DecidableEq

/-- a write: (buffer id, offset, bytes) -/
abbrev Write := Nat × Nat × Bytes

def Heap.read (h : Heap) (s : Slice) : Bytes := ((h.bufs.getD s.buf []).drop s.off).take s.len

/-- overwrite `data` at `off` inside one buffer -/
def writeAt (b : Bytes) (off : Nat) (data : Bytes) : Bytes := b.take off ++ data ++ b.drop (off + data.length)

def Heap.write (h : Heap) (w : Write) : Heap := ⟨h.bufs.modify w.1 (fun b => writeAt b w.2.1 w.2.2)⟩

/-- `make([]byte, len, cap)`: a fresh zeroed buffer at the end of the heap -/
def Heap.alloc (h : Heap) (len cap : Nat) : Heap × Slice := (⟨h.bufs ++ [zeros cap]⟩, ⟨h.bufs.length, 0, len, cap⟩)

/-- Go `append(s, data...)`: returns the new heap, the resulting slice and the writes performed -/
def Heap.append (h : Heap) (s : Slice) (data : Bytes) : Heap × Slice × List Write :=
  if s.len + data.length ≤ s.cap then
    let w : Write := (s.buf, s.off + s.len, data)
    (h.write w, { s with len := s.len + data.length }, [w])
  else
    -- growth: a new buffer holding the old contents followed by data
    let content := h.read s ++ data
    let id := h.bufs.length
    (⟨h.bufs ++ [content]⟩, ⟨id, 0, content.length, content.length⟩, [(id, 0, content)])

/-- `clone(b)`: `make` + `copy` -/
def Heap.clone (h : Heap) (s : Slice) : Heap × Slice × List Write :=
  let content := h.read s
  (⟨h.bufs ++ [content]⟩, ⟨h.bufs.length, 0, content.length, content.length⟩, [(h.bufs.length, 0, content)])

/-- the concatenation step of `verifyHash256`, repaired: `make([]byte, 0, len(key)+len(auth))`, then two appends -/
def concatKeyAuth (h : Heap) (key auth : Slice) : Heap × Slice × List Write :=
  let (h1, fresh) := h.alloc 0 (key.len + auth.len)
  let (h2, s2, w2) := h1.append fresh (h1.read key)
  let (h3, s3, w3) := h2.append s2 (h2.read auth)
  (h3, s3, w2 ++ w3)

/-- the pinned tree: `append(attestKey, qeAuthData...)` (finding F3) -/
def concatKeyAuthUnfixed (h : Heap) (key auth : Slice) : Heap × Slice × List Write :=
  h.append key (h.read auth)

/-- `getHeaderAndTdQuoteBodyInAbiBytes`: `append(header, tdQuoteBody...)` where `header` is the fresh `make(headerSize)` buffer -/
def concatHeaderBody (h : Heap) (hdr body : Bytes) : Heap × Slice × List Write :=
  let (h1, hs) := h.alloc hdr.length hdr.length
  let h1' := h1.write (hs.buf, 0, hdr)
  let (h2, s2, w2) := h1'.append hs body
  (h2, s2, (hs.buf, 0, hdr) :: w2)

/-- `applyMask(a, b)`: `make(len(a))` then element stores -/
def applyMaskH (h : Heap) (a b : Slice) : Heap × Slice × List Write :=
  let (h1, s) := h.alloc a.len a.len
  let data := List.zipWith (fun x y => x &&& y) (h.read a) (h.read b)
  (h1.write (s.buf, 0, data), s, [(s.buf, 0, data)])

end Tdx.Heap
