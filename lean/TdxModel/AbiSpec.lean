/-
  TdxModel.AbiSpec — an independent specification of the TDX quote v4 wire format, written from the
  Intel layout (TDX DCAP quote generation library, "Quote format" v4) and NOT from abi/abi.go:

  * `sub x lo hi`          : the total slice `x[lo:hi]`,
  * nil-safe getters       : `q.hdr`, `q.body`, … (what protobuf's `GetHeader()` … return),
  * `WellFormed q`         : the messages that have a wire form (structurally valid, sizes consistent),
  * `V4Layout b`           : the byte strings that follow the v4 layout,
  * `FieldsAreSlices b q`  : every field of `q` is the corresponding absolute slice of `b`,
  * `specParse`            : a cursor-based reference parser driven by ordered `(name, size)` tables;
                             offsets are prefix sums of the sizes, nothing is taken from the offset
                             constants of abi.go.

  Core Lean only; everything here is executable (`V4Layout`, `WellFormed` are decidable).
-/
import TdxModel.Abi

namespace Tdx.Abi
open Tdx

/-- `x[lo:hi]` as a total function (bytes past the end are simply missing) -/
def sub (x : Bytes) (lo hi : Nat) : Bytes := (x.take hi).drop lo

/-! ### nil-safe getters (protobuf `GetX()`): an absent sub-message reads as the zero message -/

namespace QuoteV4
def hdr (q : QuoteV4) : Header := q.header.getD default
def body (q : QuoteV4) : TdQuoteBody := q.tdQuoteBody.getD default
def signed (q : QuoteV4) : SignedData := q.signedData.getD default
def cert (q : QuoteV4) : CertificationData := q.signed.certificationData.getD default
def qeCert (q : QuoteV4) : QeReportCertData := q.cert.qeReportCertData.getD default
def qeReport (q : QuoteV4) : EnclaveReport := q.qeCert.qeReport.getD default
def auth (q : QuoteV4) : QeAuthData := q.qeCert.qeAuthData.getD default
def pck (q : QuoteV4) : PckChainData := q.qeCert.pckChain.getD default
end QuoteV4

/-- every sub-message of the quote is present -/
structure AllPresent (q : QuoteV4) : Prop where
  header : q.header = some q.hdr
  body : q.tdQuoteBody = some q.body
  signed : q.signedData = some q.signed
  cert : q.signed.certificationData = some q.cert
  qeCert : q.cert.qeReportCertData = some q.qeCert
  qeReport : q.qeCert.qeReport = some q.qeReport
  auth : q.qeCert.qeAuthData = some q.auth
  pck : q.qeCert.pckChain = some q.pck

/-! ### well-formed messages -/

/-- the two nested size fields say what the lengths really are
    (QE report 384 ‖ QE report signature 64 ‖ auth size 2 ‖ auth data ‖ PCK type 2 ‖ PCK size 4 ‖ chain;
     signature 64 ‖ attestation key 64 ‖ certification data type 2 ‖ size 4 ‖ certification data) -/
structure SizeConsistent (q : QuoteV4) : Prop where
  certSize : q.cert.size = 384 + 64 + 2 + q.auth.data.length + 6 + q.pck.pckCertChain.length
  signedDataSize : q.signedDataSize = 64 + 64 + 6 + q.cert.size

/-- the 32-bit fields fit their wire width (the 16-bit ones are pinned by `checkQuoteV4`) -/
structure InRange (q : QuoteV4) : Prop where
  signedDataSize : q.signedDataSize < 2 ^ 32
  certSize : q.cert.size < 2 ^ 32
  miscSelect : q.qeReport.miscSelect < 2 ^ 32
  pckSize : q.pck.size < 2 ^ 32

/-- a quote message that has a wire form -/
structure WellFormed (q : QuoteV4) : Prop where
  present : AllPresent q
  /-- `abi.CheckQuoteV4` accepts it -/
  check : checkQuoteV4 (some q) = .ok ()
  /-- the one length `checkTDQuoteBody` does not look at (the serialiser would truncate / pad) -/
  reportData : q.body.reportData.length = 64
  range : InRange q
  sizes : SizeConsistent q

instance (q : QuoteV4) : Decidable (AllPresent q) :=
  decidable_of_iff (q.header = some q.hdr ∧ q.tdQuoteBody = some q.body ∧ q.signedData = some q.signed ∧
      q.signed.certificationData = some q.cert ∧ q.cert.qeReportCertData = some q.qeCert ∧
      q.qeCert.qeReport = some q.qeReport ∧ q.qeCert.qeAuthData = some q.auth ∧ q.qeCert.pckChain = some q.pck)
    ⟨fun ⟨a, b, c, d, e, f, g, h⟩ => ⟨a, b, c, d, e, f, g, h⟩, fun ⟨a, b, c, d, e, f, g, h⟩ => ⟨a, b, c, d, e, f, g, h⟩⟩

instance (q : QuoteV4) : Decidable (SizeConsistent q) :=
  decidable_of_iff (q.cert.size = 384 + 64 + 2 + q.auth.data.length + 6 + q.pck.pckCertChain.length ∧
      q.signedDataSize = 64 + 64 + 6 + q.cert.size)
    ⟨fun ⟨a, b⟩ => ⟨a, b⟩, fun ⟨a, b⟩ => ⟨a, b⟩⟩

instance (q : QuoteV4) : Decidable (InRange q) :=
  decidable_of_iff (q.signedDataSize < 2 ^ 32 ∧ q.cert.size < 2 ^ 32 ∧ q.qeReport.miscSelect < 2 ^ 32 ∧ q.pck.size < 2 ^ 32)
    ⟨fun ⟨a, b, c, d⟩ => ⟨a, b, c, d⟩, fun ⟨a, b, c, d⟩ => ⟨a, b, c, d⟩⟩

instance (q : QuoteV4) : Decidable (WellFormed q) :=
  decidable_of_iff (AllPresent q ∧ checkQuoteV4 (some q) = .ok () ∧ q.body.reportData.length = 64 ∧ InRange q ∧ SizeConsistent q)
    ⟨fun ⟨a, b, c, d, e⟩ => ⟨a, b, c, d, e⟩, fun ⟨a, b, c, d, e⟩ => ⟨a, b, c, d, e⟩⟩

/-! ### the v4 layout, declaratively

    quote        : header 48 ‖ TD body 584 ‖ signed-data size n (u32) ‖ signed data (n bytes) ‖ extra
    signed data  : signature 64 ‖ attestation key 64 ‖ type (u16) = 6 ‖ size (u32) = n − 134 ‖ QE certification data
    QE cert data : QE report 384 ‖ signature 64 ‖ auth size a (u16) ‖ auth data (a bytes) ‖
                   type (u16) = 5 ‖ size (u32) = what is left ‖ PCK certificate chain -/
def V4Layout (b : Bytes) : Prop :=
  0x3FC ≤ b.length ∧ le16 (sub b 0 2) = 4 ∧ le16 (sub b 2 4) = 2 ∧ le32 (sub b 4 8) = 0x81 ∧
  let n := le32 (sub b 632 636)
  636 + n ≤ b.length ∧ 134 ≤ n ∧
  let sd := sub b 636 (636 + n)
  le16 (sub sd 128 130) = 6 ∧ le32 (sub sd 130 134) = n - 134 ∧
  let qc := sd.drop 134
  450 ≤ qc.length ∧
  let a := le16 (sub qc 448 450)
  456 + a ≤ qc.length ∧ le16 (sub qc (450 + a) (452 + a)) = 5 ∧
  le32 (sub qc (452 + a) (456 + a)) = qc.length - (456 + a)

instance (b : Bytes) : Decidable (V4Layout b) := by
  unfold V4Layout; exact inferInstance

/-! ### every field of the parsed quote is a slice of the input, at these absolute offsets -/

/-- the signed-data size field of a quote (bytes 632–635) -/
abbrev sdSizeOf (b : Bytes) : Nat := le32 (sub b 632 636)
/-- the QE authentication data size field (bytes 1218–1219: 636 + 64 + 64 + 6 + 384 + 64) -/
abbrev authSizeOf (b : Bytes) : Nat := le16 (sub b 1218 1220)

structure FieldsAreSlices (b : Bytes) (q : QuoteV4) : Prop where
  present : AllPresent q
  -- header (48 bytes at 0)
  version : q.hdr.version = le16 (sub b 0 2)
  attestationKeyType : q.hdr.attestationKeyType = le16 (sub b 2 4)
  teeType : q.hdr.teeType = le32 (sub b 4 8)
  pceSvn : q.hdr.pceSvn = sub b 8 10
  qeSvn : q.hdr.qeSvn = sub b 10 12
  qeVendorId : q.hdr.qeVendorId = sub b 12 28
  userData : q.hdr.userData = sub b 28 48
  -- TD quote body (584 bytes at 48)
  teeTcbSvn : q.body.teeTcbSvn = sub b 48 64
  mrSeam : q.body.mrSeam = sub b 64 112
  mrSignerSeam : q.body.mrSignerSeam = sub b 112 160
  seamAttributes : q.body.seamAttributes = sub b 160 168
  tdAttributes : q.body.tdAttributes = sub b 168 176
  xfam : q.body.xfam = sub b 176 184
  mrTd : q.body.mrTd = sub b 184 232
  mrConfigId : q.body.mrConfigId = sub b 232 280
  mrOwner : q.body.mrOwner = sub b 280 328
  mrOwnerConfig : q.body.mrOwnerConfig = sub b 328 376
  rtmrs : q.body.rtmrs = [sub b 376 424, sub b 424 472, sub b 472 520, sub b 520 568]
  reportData : q.body.reportData = sub b 568 632
  -- signed data (n bytes at 636)
  signedDataSize : q.signedDataSize = sdSizeOf b
  signature : q.signed.signature = sub b 636 700
  attestationKey : q.signed.ecdsaAttestationKey = sub b 700 764
  certType : q.cert.certificateDataType = le16 (sub b 764 766)
  certSize : q.cert.size = le32 (sub b 766 770)
  -- QE report (384 bytes at 770)
  cpuSvn : q.qeReport.cpuSvn = sub b 770 786
  miscSelect : q.qeReport.miscSelect = le32 (sub b 786 790)
  reserved1 : q.qeReport.reserved1 = sub b 790 818
  attributes : q.qeReport.attributes = sub b 818 834
  mrEnclave : q.qeReport.mrEnclave = sub b 834 866
  reserved2 : q.qeReport.reserved2 = sub b 866 898
  mrSigner : q.qeReport.mrSigner = sub b 898 930
  reserved3 : q.qeReport.reserved3 = sub b 930 1026
  isvProdId : q.qeReport.isvProdId = le16 (sub b 1026 1028)
  isvSvn : q.qeReport.isvSvn = le16 (sub b 1028 1030)
  reserved4 : q.qeReport.reserved4 = sub b 1030 1090
  qeReportData : q.qeReport.reportData = sub b 1090 1154
  qeReportSignature : q.qeCert.qeReportSignature = sub b 1154 1218
  -- QE authentication data (a bytes at 1220) and PCK certificate chain (up to the end of the signed data)
  authSize : q.auth.parsedDataSize = authSizeOf b
  authData : q.auth.data = sub b 1220 (1220 + authSizeOf b)
  pckType : q.pck.certificateDataType = le16 (sub b (1220 + authSizeOf b) (1222 + authSizeOf b))
  pckSize : q.pck.size = le32 (sub b (1222 + authSizeOf b) (1226 + authSizeOf b))
  pckChain : q.pck.pckCertChain = sub b (1226 + authSizeOf b) (636 + sdSizeOf b)
  extraBytes : q.extraBytes = b.drop (636 + sdSizeOf b)

/-! ### reference parser: a cursor over the input, fixed-size records read from `(name, size)` tables -/

/-- a fixed-size record of the layout: field names and sizes in wire order -/
abbrev Table := List (String × Nat)

def headerTable : Table :=
  [("version", 2), ("attestation key type", 2), ("TEE type", 4), ("PCE SVN", 2), ("QE SVN", 2), ("QE vendor id", 16),
   ("user data", 20)]

def tdBodyTable : Table :=
  [("TEE_TCB_SVN", 16), ("MRSEAM", 48), ("MRSIGNERSEAM", 48), ("SEAMATTRIBUTES", 8), ("TDATTRIBUTES", 8), ("XFAM", 8),
   ("MRTD", 48), ("MRCONFIGID", 48), ("MROWNER", 48), ("MROWNERCONFIG", 48), ("RTMR0", 48), ("RTMR1", 48), ("RTMR2", 48),
   ("RTMR3", 48), ("REPORTDATA", 64)]

def qeReportTable : Table :=
  [("CPUSVN", 16), ("MISCSELECT", 4), ("reserved", 28), ("ATTRIBUTES", 16), ("MRENCLAVE", 32), ("reserved", 32),
   ("MRSIGNER", 32), ("reserved", 96), ("ISVPRODID", 2), ("ISVSVN", 2), ("reserved", 60), ("REPORTDATA", 64)]

/-- cursor step: the next `n` bytes and what is left; fails when fewer than `n` bytes are left -/
def next (n : Nat) (b : Bytes) : Option (Bytes × Bytes) :=
  if n ≤ b.length then some (b.take n, b.drop n) else none

/-- read the fields of a record one after the other -/
def readRecord : Table → Bytes → Option (List Bytes × Bytes)
  | [], b => some ([], b)
  | (_, n) :: tbl, b => do
    let (f, b) ← next n b
    let (fs, b) ← readRecord tbl b
    pure (f :: fs, b)

def specHeader (b : Bytes) : Option (Header × Bytes) := do
  let ([v, k, t, pce, qe, ven, ud], b) ← readRecord headerTable b | none
  pure (⟨le16 v, le16 k, le32 t, pce, qe, ven, ud⟩, b)

def specBody (b : Bytes) : Option (TdQuoteBody × Bytes) := do
  let ([tee, seam, sseam, sattr, tattr, xfam, mrtd, cfg, own, ownc, r0, r1, r2, r3, rd], b) ← readRecord tdBodyTable b | none
  pure (⟨tee, seam, sseam, sattr, tattr, xfam, mrtd, cfg, own, ownc, [r0, r1, r2, r3], rd⟩, b)

def specReport (b : Bytes) : Option (EnclaveReport × Bytes) := do
  let ([cpu, misc, r1, attr, mre, r2, mrs, r3, prod, svn, r4, rd], b) ← readRecord qeReportTable b | none
  pure (⟨cpu, le32 misc, r1, attr, mre, r2, mrs, r3, le16 prod, le16 svn, r4, rd⟩, b)

/-- the v4 quote, front to back; every nested size must be exactly what is there -/
def specParse (b : Bytes) : Option QuoteV4 := do
  let (h, b) ← specHeader b
  let (t, b) ← specBody b
  let (sz, b) ← next 4 b
  let (sd, extra) ← next (le32 sz) b
  -- signed data: exactly `le32 sz` bytes
  let (sig, sd) ← next 64 sd
  let (key, sd) ← next 64 sd
  let (ct, sd) ← next 2 sd
  let (cs, qc) ← next 4 sd
  guard (le32 cs = qc.length)
  -- QE report certification data: exactly `le32 cs` bytes
  let (r, qc) ← specReport qc
  let (qsig, qc) ← next 64 qc
  let (asz, qc) ← next 2 qc
  let (ad, qc) ← next (le16 asz) qc
  let (pt, qc) ← next 2 qc
  let (ps, chain) ← next 4 qc
  guard (le32 ps = chain.length)
  guard (h.version = 4 ∧ h.attestationKeyType = 2 ∧ h.teeType = 0x81 ∧ le16 ct = 6 ∧ le16 pt = 5)
  pure ⟨some h, some t, le32 sz,
        some ⟨sig, key, some ⟨le16 ct, le32 cs, some ⟨some r, qsig, some ⟨le16 asz, ad⟩, some ⟨le16 pt, le32 ps, chain⟩⟩⟩⟩,
        extra⟩

/-- `Outcome` without the diagnostics: the value, if any -/
def _root_.Tdx.Outcome.toOption {α : Type} : Outcome α → Option α
  | .ok a => some a
  | _ => none

end Tdx.Abi
