/-
  TdxModel.Abi — abi/abi.go: the v4 quote parser, the structural validity predicate and the
  serialiser, Go-faithful (same case structure, same absolute offsets taken from the regenerated
  constants, `panic` where Go would slice or index out of range).

  The parser models the property-satisfying behaviour: the five length guards in front of the
  variable-length tail (finding F1) are present; `…Unfixed` variants are the pinned tree.

  uint32 truncations (`uint32(len(x))`) are modelled without wrap-around: the model equals the code
  for inputs shorter than 2^32 bytes (observation O-6).
-/
import TdxModel.Basic
import TdxModel.Generated.Consts

namespace Tdx.Abi
open Tdx Tdx.Gen

/-! ### messages (pb.QuoteV4 and its sub-messages; an absent sub-message is `none`) -/

structure Header where
  version : Nat
  attestationKeyType : Nat
  teeType : Nat
  pceSvn : Bytes
  qeSvn : Bytes
  qeVendorId : Bytes
  userData : Bytes
deriving Repr, DecidableEq, Inhabited

structure TdQuoteBody where
  teeTcbSvn : Bytes
  mrSeam : Bytes
  mrSignerSeam : Bytes
  seamAttributes : Bytes
  tdAttributes : Bytes
  xfam : Bytes
  mrTd : Bytes
  mrConfigId : Bytes
  mrOwner : Bytes
  mrOwnerConfig : Bytes
  rtmrs : List Bytes
  reportData : Bytes
deriving Repr, DecidableEq, Inhabited

structure EnclaveReport where
  cpuSvn : Bytes
  miscSelect : Nat
  reserved1 : Bytes
  attributes : Bytes
  mrEnclave : Bytes
  reserved2 : Bytes
  mrSigner : Bytes
  reserved3 : Bytes
  isvProdId : Nat
  isvSvn : Nat
  reserved4 : Bytes
  reportData : Bytes
deriving Repr, DecidableEq, Inhabited

structure QeAuthData where
  parsedDataSize : Nat
  data : Bytes
deriving Repr, DecidableEq, Inhabited

structure PckChainData where
  certificateDataType : Nat
  size : Nat
  pckCertChain : Bytes
deriving Repr, DecidableEq, Inhabited

structure QeReportCertData where
  qeReport : Option EnclaveReport
  qeReportSignature : Bytes
  qeAuthData : Option QeAuthData
  pckChain : Option PckChainData
deriving Repr, DecidableEq, Inhabited

structure CertificationData where
  certificateDataType : Nat
  size : Nat
  qeReportCertData : Option QeReportCertData
deriving Repr, DecidableEq, Inhabited

structure SignedData where
  signature : Bytes
  ecdsaAttestationKey : Bytes
  certificationData : Option CertificationData
deriving Repr, DecidableEq, Inhabited

structure QuoteV4 where
  header : Option Header
  tdQuoteBody : Option TdQuoteBody
  signedDataSize : Nat
  signedData : Option SignedData
  extraBytes : Bytes
deriving Repr, DecidableEq, Inhabited

/-! ### structural validity (`check*`) — never panics: every access goes through a nil-safe getter -/

def lenIs (b : Bytes) (n : Nat) (what : String) : Outcome Unit := guard' (b.length == n) what

def checkHeader : Option Header → Outcome Unit
  | none => .err "header nil"
  | some h => do
    guard' (h.version < 65536) "version range"
    guard' (h.version == abi_QuoteVersion) "version"
    guard' (h.attestationKeyType < 65536) "key type range"
    guard' (h.attestationKeyType == abi_AttestationKeyType) "key type"
    guard' (h.teeType == abi_TeeTDX) "tee type"
    lenIs h.qeSvn abi_qeSvnSize "qeSvn"
    lenIs h.pceSvn abi_pceSvnSize "pceSvn"
    lenIs h.qeVendorId abi_QeVendorIDSize "qeVendorId"
    lenIs h.userData abi_userDataSize "userData"

/-- `for i := 0; i < rtmrsCount; i++ { len(rtmrs[i]) != RtmrSize }` after the count check -/
def checkRtmrs (rs : List Bytes) : Outcome Unit :=
  guard' (rs.all fun r => r.length == abi_RtmrSize) "rtmr size"

def checkTDQuoteBody : Option TdQuoteBody → Outcome Unit
  | none => .err "td quote body nil"
  | some t => do
    lenIs t.teeTcbSvn abi_TeeTcbSvnSize "teeTcbSvn"
    lenIs t.mrSeam abi_MrSeamSize "mrSeam"
    lenIs t.mrSignerSeam abi_mrSignerSeamSize "mrSignerSeam"
    lenIs t.seamAttributes abi_seamAttributesSize "seamAttributes"
    lenIs t.tdAttributes abi_TdAttributesSize "tdAttributes"
    lenIs t.xfam abi_XfamSize "xfam"
    lenIs t.mrTd abi_MrTdSize "mrTd"
    lenIs t.mrConfigId abi_MrConfigIDSize "mrConfigId"
    lenIs t.mrOwner abi_MrOwnerSize "mrOwner"
    lenIs t.mrOwnerConfig abi_MrOwnerConfigSize "mrOwnerConfig"
    lenIs t.reportData abi_ReportDataSize "reportData"
    guard' (t.rtmrs.length == abi_rtmrsCount) "rtmrs count"
    checkRtmrs t.rtmrs

def checkPckChain : Option PckChainData → Outcome Unit
  | none => .err "pck chain nil"
  | some c => do
    guard' (c.certificateDataType < 65536) "pck type range"
    guard' (c.certificateDataType == abi_pckReportCertificationDataType) "pck type"
    guard' (c.size == c.pckCertChain.length) "pck size"

def checkQeReport : Option EnclaveReport → Outcome Unit
  | none => .err "qe report nil"
  | some r => do
    lenIs r.cpuSvn abi_cpuSvnSize "cpuSvn"
    lenIs r.reserved1 abi_reserved1Size "reserved1"
    lenIs r.attributes abi_attributesSize "attributes"
    lenIs r.mrEnclave abi_mrEnclaveSize "mrEnclave"
    lenIs r.reserved2 abi_reserved2Size "reserved2"
    lenIs r.mrSigner abi_mrSignerSize "mrSigner"
    lenIs r.reserved3 abi_reserved3Size "reserved3"
    guard' (r.isvProdId < 65536) "isvProdId range"
    guard' (r.isvSvn < 65536) "isvSvn range"
    lenIs r.reserved4 abi_reserved4Size "reserved4"
    lenIs r.reportData abi_ReportDataSize "reportData"

def checkQeAuthData : Option QeAuthData → Outcome Unit
  | none => .err "qe auth data nil"
  | some a => do
    guard' (a.parsedDataSize < 65536) "auth size range"
    guard' (a.parsedDataSize == a.data.length) "auth size"

def checkQeReportCertData : Option QeReportCertData → Outcome Unit
  | none => .err "qe report cert data nil"
  | some q => do
    checkQeReport q.qeReport
    lenIs q.qeReportSignature abi_signatureSize "qe signature"
    checkQeAuthData q.qeAuthData
    checkPckChain q.pckChain

def checkCertificationData : Option CertificationData → Outcome Unit
  | none => .err "certification data nil"
  | some c => do
    guard' (c.certificateDataType < 65536) "cert type range"
    guard' (c.certificateDataType == abi_qeReportCertificationDataType) "cert type"
    checkQeReportCertData c.qeReportCertData

def checkSignedData : Option SignedData → Outcome Unit
  | none => .err "signed data nil"
  | some s => do
    lenIs s.signature abi_signatureSize "signature"
    lenIs s.ecdsaAttestationKey abi_attestationKeySize "attestation key"
    checkCertificationData s.certificationData

/-- `abi.CheckQuoteV4` (the `quote == nil` case is `none`) -/
def checkQuoteV4 : Option QuoteV4 → Outcome Unit
  | none => .err "quote nil"
  | some q => do
    checkHeader q.header
    checkTDQuoteBody q.tdQuoteBody
    checkSignedData q.signedData

/-! ### parser -/

def headerToProto (b : Bytes) : Outcome Header := do
  let v ← slice b abi_headerVersionStart abi_headerVersionEnd
  let k ← slice b abi_headerAttestationKeyTypeStart abi_headerAttestationKeyTypeEnd
  let t ← slice b abi_headerTeeTypeStart abi_headerTeeTypeEnd
  let pce ← slice b abi_headerPceSvnStart abi_headerPceSvnEnd
  let qe ← slice b abi_headerQeSvnStart abi_headerQeSvnEnd
  let ven ← slice b abi_headerQeVendorIDStart abi_headerQeVendorIDEnd
  let ud ← slice b abi_headerUserDataStart abi_headerUserDataEnd
  let h : Header := ⟨le16 v, le16 k, le32 t, pce, qe, ven, ud⟩
  checkHeader (some h)
  pure h

def tdQuoteBodyToProto (b : Bytes) : Outcome TdQuoteBody := do
  let tee ← slice b abi_tdTeeTcbSvnStart abi_tdTeeTcbSvnEnd
  let seam ← slice b abi_tdMrSeamStart abi_tdMrSeamEnd
  let sseam ← slice b abi_tdMrSignerSeamStart abi_tdMrSignerSeamEnd
  let sattr ← slice b abi_tdSeamAttributesStart abi_tdSeamAttributesEnd
  let tattr ← slice b abi_tdAttributesStart abi_tdAttributesEnd
  let xfam ← slice b abi_tdXfamStart abi_tdXfamEnd
  let mrtd ← slice b abi_tdMrTdStart abi_tdMrTdEnd
  let cfg ← slice b abi_tdMrConfigIDStart abi_tdMrConfigIDEnd
  let own ← slice b abi_tdMrOwnerStart abi_tdMrOwnerEnd
  let ownc ← slice b abi_tdMrOwnerConfigStart abi_tdMrOwnerConfigEnd
  let rd ← slice b abi_tdReportDataStart abi_tdReportDataEnd
  let r0 ← slice b abi_tdRtmrsStart (abi_tdRtmrsStart + abi_RtmrSize)
  let r1 ← slice b (abi_tdRtmrsStart + abi_RtmrSize) (abi_tdRtmrsStart + 2 * abi_RtmrSize)
  let r2 ← slice b (abi_tdRtmrsStart + 2 * abi_RtmrSize) (abi_tdRtmrsStart + 3 * abi_RtmrSize)
  let r3 ← slice b (abi_tdRtmrsStart + 3 * abi_RtmrSize) (abi_tdRtmrsStart + 4 * abi_RtmrSize)
  let t : TdQuoteBody := ⟨tee, seam, sseam, sattr, tattr, xfam, mrtd, cfg, own, ownc, [r0, r1, r2, r3], rd⟩
  checkTDQuoteBody (some t)
  pure t

def enclaveReportToProto (b : Bytes) : Outcome EnclaveReport := do
  let cpu ← slice b abi_qeCPUSvnStart abi_qeCPUSvnEnd
  let misc ← slice b abi_qeMiscSelectStart abi_qeMiscSelectEnd
  let r1 ← slice b abi_qeReserved1Start abi_qeReserved1End
  let attr ← slice b abi_qeAttributesStart abi_qeAttributesEnd
  let mre ← slice b abi_qeMrEnclaveStart abi_qeMrEnclaveEnd
  let r2 ← slice b abi_qeReserved2Start abi_qeReserved2End
  let mrs ← slice b abi_qeMrSignerStart abi_qeMrSignerEnd
  let r3 ← slice b abi_qeReserved3Start abi_qeReserved3End
  let prod ← slice b abi_qeIsvProdIDStart abi_qeIsvProdIDEnd
  let svn ← slice b abi_qeIsvSvnStart abi_qeIsvSvnEnd
  let r4 ← slice b abi_qeReserved4Start abi_qeReserved4End
  let rd ← slice b abi_qeReportDataStart abi_qeReportDataEnd
  let r : EnclaveReport := ⟨cpu, le32 misc, r1, attr, mre, r2, mrs, r3, le16 prod, le16 svn, r4, rd⟩
  checkQeReport (some r)
  pure r

/-- returns the auth data and the offset just behind it (`authDataEnd`) -/
def qeAuthDataToProto (guarded : Bool) (b : Bytes) : Outcome (QeAuthData × Nat) := do
  if guarded then guard' (abi_authDataParsedDataSizeEnd ≤ b.length) "auth short"
  let s ← slice b abi_authDataParsedDataSizeStart abi_authDataParsedDataSizeEnd
  let n := le16 s
  let e := abi_authDataParsedDataSizeEnd + n
  if guarded then guard' (e ≤ b.length) "auth data short"
  let d ← slice b abi_authDataStart e
  let a : QeAuthData := ⟨n, d⟩
  checkQeAuthData (some a)
  pure (a, e)

def pckCertificateChainToProto (guarded : Bool) (b : Bytes) : Outcome PckChainData := do
  if guarded then guard' (abi_pckCertChainDataStart ≤ b.length) "pck short"
  let t ← slice b abi_pckCertChainCertificationDataTypeStart abi_pckCertChainCertificationDataTypeEnd
  let s ← slice b abi_pckCertChainSizeStart abi_pckCertChainSizeEnd
  let c ← sliceFrom b abi_pckCertChainDataStart
  let p : PckChainData := ⟨le16 t, le32 s, c⟩
  checkPckChain (some p)
  pure p

def qeReportCertDataToProto (guarded : Bool) (b : Bytes) : Outcome QeReportCertData := do
  if guarded then guard' (abi_qeReportCertificationDataAuthDataStart ≤ b.length) "qe cert data short"
  let rb ← slice b abi_enclaveReportStart abi_enclaveReportEnd
  let report ← enclaveReportToProto rb
  let sig ← slice b abi_qeReportCertificationDataSignatureStart abi_qeReportCertificationDataSignatureEnd
  let rest ← sliceFrom b abi_qeReportCertificationDataAuthDataStart
  let (auth, authEnd) ← qeAuthDataToProto guarded rest
  let rest2 ← sliceFrom b (abi_qeReportCertificationDataAuthDataStart + authEnd)
  let pck ← pckCertificateChainToProto guarded rest2
  let q : QeReportCertData := ⟨some report, sig, some auth, some pck⟩
  checkQeReportCertData (some q)
  pure q

def certificationDataToProto (guarded : Bool) (b : Bytes) : Outcome CertificationData := do
  if guarded then guard' (abi_certificateDataStart ≤ b.length) "cert data short"
  let t ← slice b abi_certificateDataTypeStart abi_certificateDataTypeEnd
  let s ← slice b abi_certificateSizeStart abi_certificateSizeEnd
  let raw ← sliceFrom b abi_certificateDataStart
  guard' (raw.length == le32 s) "cert data size"
  let qe ← qeReportCertDataToProto guarded raw
  let c : CertificationData := ⟨le16 t, le32 s, some qe⟩
  checkCertificationData (some c)
  pure c

def signedDataToProto (guarded : Bool) (b : Bytes) : Outcome SignedData := do
  if guarded then guard' (abi_signedDataCertificationDataStart ≤ b.length) "signed data short"
  let sig ← slice b abi_signedDataSignatureStart abi_signedDataSignatureEnd
  let key ← slice b abi_signedDataAttestationKeyStart abi_signedDataAttestationKeyEnd
  let rest ← sliceFrom b abi_signedDataCertificationDataStart
  let cert ← certificationDataToProto guarded rest
  let s : SignedData := ⟨sig, key, some cert⟩
  checkSignedData (some s)
  pure s

def quoteToProtoV4' (guarded : Bool) (b : Bytes) : Outcome QuoteV4 := do
  guard' (abi_QuoteMinSize ≤ b.length) "min size"
  let hb ← slice b abi_quoteHeaderStart abi_quoteHeaderEnd
  let header ← headerToProto hb
  let bb ← slice b abi_quoteBodyStart abi_quoteBodyEnd
  let body ← tdQuoteBodyToProto bb
  let sz ← slice b abi_quoteSignedDataSizeStart abi_quoteSignedDataSizeEnd
  let n := le32 sz
  let additional ← sliceFrom b abi_quoteSignedDataStart
  guard' (n ≤ additional.length) "signed data size"
  let sdEnd := abi_quoteSignedDataStart + n
  let raw ← slice b abi_quoteSignedDataStart sdEnd
  let extra ← sliceFrom b sdEnd
  let sd ← signedDataToProto guarded raw
  let q : QuoteV4 := ⟨some header, some body, n, some sd, extra⟩
  checkQuoteV4 (some q)
  pure q

/-- `determineQuoteFormat` + dispatch of `abi.QuoteToProto` -/
def quoteToProto' (guarded : Bool) (b : Bytes) : Outcome QuoteV4 := do
  guard' (abi_headerVersionEnd ≤ b.length) "format"
  let v ← slice b abi_headerVersionStart abi_headerVersionEnd
  guard' (le16 v == abi_intelQuoteV4Version) "format unsupported"
  quoteToProtoV4' guarded b

/-- property-satisfying parser (length guards present) -/
def quoteToProto (b : Bytes) : Outcome QuoteV4 := quoteToProto' true b
/-- the pinned tree (finding F1) -/
def quoteToProtoUnfixed (b : Bytes) : Outcome QuoteV4 := quoteToProto' false b

/-! ### serialiser.  Each `*ToAbiBytes` checks, then writes every field at its offset into a
    `make`d buffer; because the checked sizes tile the buffer exactly (theorem
    `TdxProofs.Lemmas.Layout.layout_contiguous`), that is the concatenation of the fields. -/

def headerToAbiBytes : Option Header → Outcome Bytes
  | none => .err "header nil"
  | some h => do
    checkHeader (some h)
    pure (toLE16 h.version ++ toLE16 h.attestationKeyType ++ toLE32 h.teeType ++ h.pceSvn ++ h.qeSvn ++
          h.qeVendorId ++ h.userData)

/-- `copy(data[tdReportDataStart:tdReportDataEnd], reportData)` into a zeroed region: the only field
    `checkTDQuoteBody` does not size-check, so truncate / zero-pad as `copy` does -/
def fit (b : Bytes) (n : Nat) : Bytes := b.take n ++ zeros (n - b.length)

def tdQuoteBodyToAbiBytes : Option TdQuoteBody → Outcome Bytes
  | none => .err "td quote body nil"
  | some t => do
    checkTDQuoteBody (some t)
    pure (t.teeTcbSvn ++ t.mrSeam ++ t.mrSignerSeam ++ t.seamAttributes ++ t.tdAttributes ++ t.xfam ++ t.mrTd ++
          t.mrConfigId ++ t.mrOwner ++ t.mrOwnerConfig ++ t.rtmrs.flatten ++ fit t.reportData abi_ReportDataSize)

def enclaveReportToAbiBytes : Option EnclaveReport → Outcome Bytes
  | none => .err "qe report nil"
  | some r => do
    checkQeReport (some r)
    pure (r.cpuSvn ++ toLE32 r.miscSelect ++ r.reserved1 ++ r.attributes ++ r.mrEnclave ++ r.reserved2 ++
          r.mrSigner ++ r.reserved3 ++ toLE16 r.isvProdId ++ toLE16 r.isvSvn ++ r.reserved4 ++ r.reportData)

def pckChainToAbiBytes : Option PckChainData → Outcome Bytes
  | none => .err "pck chain nil"
  | some p => do
    checkPckChain (some p)
    pure (toLE16 p.certificateDataType ++ toLE32 p.size ++ p.pckCertChain)

def qeAuthDataToAbiBytes : Option QeAuthData → Outcome Bytes
  | none => .err "qe auth data nil"
  | some a => do
    checkQeAuthData (some a)
    pure (toLE16 a.parsedDataSize ++ a.data)

def qeReportCertDataToAbiBytes : Option QeReportCertData → Outcome Bytes
  | none => .err "qe report cert data nil"
  | some q => do
    checkQeReportCertData (some q)
    let r ← enclaveReportToAbiBytes q.qeReport
    let a ← qeAuthDataToAbiBytes q.qeAuthData
    let p ← pckChainToAbiBytes q.pckChain
    pure (r ++ q.qeReportSignature ++ a ++ p)

def certificationDataToAbiBytes : Option CertificationData → Outcome Bytes
  | none => .err "certification data nil"
  | some c => do
    checkCertificationData (some c)
    let q ← qeReportCertDataToAbiBytes c.qeReportCertData
    pure (toLE16 c.certificateDataType ++ toLE32 c.size ++ q)

def signedDataToAbiBytes : Option SignedData → Outcome Bytes
  | none => .err "signed data nil"
  | some s => do
    checkSignedData (some s)
    let c ← certificationDataToAbiBytes s.certificationData
    pure (s.signature ++ s.ecdsaAttestationKey ++ c)

/-- `abi.QuoteToAbiBytes` on a `*pb.QuoteV4` (`none` = typed nil pointer) -/
def quoteToAbiBytes : Option QuoteV4 → Outcome Bytes
  | none => .err "quote nil"
  | some q => do
    checkQuoteV4 (some q)
    let h ← headerToAbiBytes q.header
    let t ← tdQuoteBodyToAbiBytes q.tdQuoteBody
    let s ← signedDataToAbiBytes q.signedData
    pure (h ++ t ++ toLE32 q.signedDataSize ++ s ++ q.extraBytes)

/-- `abi.SignatureToDER`: only the length precondition is repo logic (DER building is a parameter) -/
def signatureToDerOk (sig : Bytes) : Bool := sig.length == abi_signatureSize

end Tdx.Abi
