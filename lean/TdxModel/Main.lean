import TdxModel.Proto
import TdxModel.Drive.Client

open Tdx Tdx.Proto Tdx.Drive

def dispatch (l : Line) : P String :=
  match l.op with
  | "C15.dev" => c15dev l
  | "C15.prov" => c15prov l
  | op => .error s!"unknown op {op}"

partial def loop (h : IO.FS.Stream) (out : IO.FS.Stream) : IO Unit := do
  let line ← h.getLine
  if line.isEmpty then return ()
  let l := parseLine line
  if l.op == "" || l.op.startsWith "#" then
    loop h out
  else
    match dispatch l with
    | .ok s => out.putStrLn s
    | .error e => out.putStrLn s!"DRIVER-ERROR {e}"
    loop h out

def main : IO Unit := do
  let out ← IO.getStdout
  loop (← IO.getStdin) out
  out.flush
