import TdxModel.Proto
import TdxModel.Drive.Client
import TdxModel.Drive.Abi
import TdxModel.Drive.Retry
import TdxModel.Drive.Validate
import TdxModel.Drive.Rtmr
import TdxModel.Drive.PckExt
import TdxModel.Drive.CheckTool
import TdxModel.Drive.Verify
import TdxModel.Drive.Ccel
import TdxModel.Drive.Heap

open Tdx Tdx.Proto Tdx.Drive

def dispatch (l : Line) : P String :=
  match l.op with
  | "C15.dev" => c15dev l
  | "C15.prov" => c15prov l
  | "C09.parse" => c09parse l
  | "C09.ser" => c09ser l
  | "C20.get" => c20get l
  | "C08.val" => c08val l
  | "C14.conv" => c14conv l
  | "C14.val" => c14val l
  | "C17" => c17 l
  | "C13" => c13 l
  | "C19.run" => c19 Tdx.CheckTool.fixed l
  | "C19.pinned" => c19 Tdx.CheckTool.pinned l
  | "V.verify" => Tdx.Drive.V.verify l
  | "V.levels" => Tdx.Drive.V.levels l
  | "C18.bank" => c18bank l
  | "C18.parse" => c18parse l
  | "C16.concat" => c16concat l
  | op => .error s!"unknown op {op}"

partial def loop (h : IO.FS.Stream) (out : IO.FS.Stream) (blobs : List (Nat × Bytes)) : IO Unit := do
  let line ← h.getLine
  if line.isEmpty then return ()
  let l := { parseLine line with blobs := blobs }
  if l.op == "" || l.op.startsWith "#" then
    loop h out blobs
  else if l.op == "DEF" then
    match (do let i ← l.nat "id"; let b ← l.bytes "b"; pure (i, b) : P (Nat × Bytes)) with
    | .ok (i, b) =>
      out.putStrLn "def"
      loop h out ((i, b) :: blobs.filter (·.1 != i))
    | .error e =>
      out.putStrLn s!"DRIVER-ERROR {e}"
      loop h out blobs
  else
    match dispatch l with
    | .ok s => out.putStrLn s
    | .error e => out.putStrLn s!"DRIVER-ERROR {e}"
    loop h out blobs

def main : IO Unit := do
  let out ← IO.getStdout
  loop (← IO.getStdin) out []
  out.flush
