/-
  TdxModel.CheckTool — tools/check/check.go: the flag-over-config merge and the exit code (C19).

  What is modelled
  * the command line after tokenisation: every optional flag as the *token* the tool's own parsing
    sees (`BoolFlag`, `NumFlag`, `BytesFlag`, `ListFlag`), the config file as a `checkconfig.Config`
    message whose sub-messages may be absent (`Option`), the quote argument as readable/parsable;
  * `parseConfig` / `populateRootOfTrust` / `populateConfig` (merge), `cmdline.Bytes` sizing
    (a decoded value no longer than the field is zero-padded to the field size, a longer one is an error),
    `parseUint(…, 32)`, `setBool`, `-rtmrs`, `-trusted_roots`;
  * `validate.PolicyToOptions` as far as it can fail (`policyConverts`);
  * `main`'s sequence of checks and the exit code it selects, including the classification of the
    error returned by `verify.TdxQuote` through `errors.As` (`GoErr`, `errorsAs`, `clarify`).

  Parameters (the library, per quote and world): `Library.rotOk` (`verify.RootOfTrustToOptions`),
  `Library.verify` (`verify.TdxQuote` with the tool's getter), `Library.validates`
  (`validate.TdxQuote`).  Their own correctness is C01–C14's business.

  `Variant` carries the three places where the pinned tree differs from the property-satisfying
  behaviour: `fixed` (the main model) and `pinned` (F10: `%v` + pointer `errors.As` target; F11: nil
  sub-messages survive `parseConfig`; F14: the flag package's own errors exit 2).
-/
import TdxModel.Basic
import TdxModel.Generated.Consts

namespace Tdx.CheckTool
open Tdx

/-! ### flag tokens -/

/-- `-check_crl`, `-get_collateral`: `""`, `"true"`, `"false"`, anything else -/
inductive BoolFlag where
  | unset | t | f | bad
deriving Repr, DecidableEq

/-- `-minimum_qe_svn`, `-minimum_pce_svn`: `""`, not a number in base 10/16/8/2 (or negative),
    or the mathematical value of the literal (any size) -/
inductive NumFlag where
  | unset | bad | val (n : Nat)
deriving Repr, DecidableEq

/-- a `cmdline.Bytes` flag: `""`, neither hex nor base64, or the decoded bytes (before sizing) -/
inductive BytesFlag where
  | unset | bad | dec (b : Bytes)
deriving Repr, DecidableEq

/-- `-rtmrs` (comma separated hex) and `-trusted_roots` (comma separated paths):
    `""`, an element that does not parse / a path that is not a file, or the parsed list -/
inductive ListFlag (α : Type) where
  | unset | bad | val (l : List α)
deriving Repr, DecidableEq

/-- the nine `bytes` fields of `TDQuoteBodyPolicy` that have a flag -/
inductive BodyField where
  | minimumTeeTcbSvn | mrSeam | tdAttributes | xfam | mrTd | mrConfigId | mrOwner | mrOwnerConfig | reportData
deriving Repr, DecidableEq

def BodyField.all : List BodyField :=
  [.minimumTeeTcbSvn, .mrSeam, .tdAttributes, .xfam, .mrTd, .mrConfigId, .mrOwner, .mrOwnerConfig, .reportData]

/-- the size each flag / option must have (`abi.*Size`) -/
def BodyField.size : BodyField → Nat
  | .minimumTeeTcbSvn => Gen.abi_TeeTcbSvnSize
  | .mrSeam => Gen.abi_MrSeamSize
  | .tdAttributes => Gen.abi_TdAttributesSize
  | .xfam => Gen.abi_XfamSize
  | .mrTd => Gen.abi_MrTdSize
  | .mrConfigId => Gen.abi_MrConfigIDSize
  | .mrOwner => Gen.abi_MrOwnerSize
  | .mrOwnerConfig => Gen.abi_MrOwnerConfigSize
  | .reportData => Gen.abi_ReportDataSize

def qeVendorIdSize : Nat := Gen.abi_QeVendorIDSize
def rtmrSize : Nat := Gen.abi_RtmrSize
def rtmrsCount : Nat := Gen.validate_rtmrsCount
/-- `PolicyToOptions`: "Expect 0-65535" (a literal in validate.go, not an extracted constant) -/
def maxSvn : Nat := 65535

/-! ### the config message (`proto/checkconfig.proto`); proto3: an absent scalar is its zero value -/

structure HeaderMsg where
  minimumQeSvn  : Nat   := 0
  minimumPceSvn : Nat   := 0
  qeVendorId    : Bytes := []
deriving Repr, DecidableEq

structure BodyMsg where
  bytes   : BodyField → Bytes := fun _ => []
  rtmrs   : List Bytes := []
  anyMrTd : List Bytes := []

structure PolicyMsg where
  header : Option HeaderMsg := none
  body   : Option BodyMsg   := none

structure RootOfTrust where
  cabundlePaths : List String := []
  cabundles     : List String := []
  checkCrl      : Bool := false
  getCollateral : Bool := false
deriving Repr, DecidableEq

structure ConfigMsg where
  policy      : Option PolicyMsg   := none
  rootOfTrust : Option RootOfTrust := none

/-- `-config`: not given, a file that cannot be read / deserialised, or a message -/
inductive ConfigArg where
  | absent | unreadable | file (c : ConfigMsg)

structure Flags where
  checkCrl      : BoolFlag := .unset
  getCollateral : BoolFlag := .unset
  minimumQeSvn  : NumFlag := .unset
  minimumPceSvn : NumFlag := .unset
  qeVendorId    : BytesFlag := .unset
  body          : BodyField → BytesFlag := fun _ => .unset
  rtmrs         : ListFlag Bytes := .unset
  trustedRoots  : ListFlag String := .unset

/-! ### per-kind merge: flag given → flag value, else the value already in `config` -/

def BoolFlag.ok : BoolFlag → Bool
  | .bad => false
  | _ => true

def mergeBool (flag : BoolFlag) (base : Bool) : Bool :=
  match flag with
  | .t => true
  | .f => false
  | _ => base

/-- `strconv.ParseUint(_, _, 32)` -/
def NumFlag.ok : NumFlag → Bool
  | .unset => true
  | .bad => false
  | .val n => n < 2 ^ 32

def mergeNum (flag : NumFlag) (base : Nat) : Nat :=
  match flag with
  | .val n => n
  | _ => base

/-- `cmdline.sizedBytes`: more bytes than the field holds is an error -/
def BytesFlag.ok (size : Nat) : BytesFlag → Bool
  | .unset => true
  | .bad => false
  | .dec b => b.length ≤ size

/-- `sized := make([]byte, byteSize); copy(sized, bytes)` -/
def pad (size : Nat) (b : Bytes) : Bytes := b ++ zeros (size - b.length)

def mergeBytes (size : Nat) (flag : BytesFlag) (base : Bytes) : Bytes :=
  match flag with
  | .dec b => pad size b
  | _ => base

def ListFlag.ok {α} : ListFlag α → Bool
  | .bad => false
  | _ => true

/-- `setRtmrs`: a given flag replaces the list -/
def mergeRtmrs (flag : ListFlag Bytes) (base : List Bytes) : List Bytes :=
  match flag with
  | .val l => l
  | _ => base

/-- `populateRootOfTrust`: `if len(paths) > 0 { rot.CabundlePaths = paths }` -/
def mergePaths (flag : ListFlag String) (base : List String) : List String :=
  match flag with
  | .val l => if l.isEmpty then base else l
  | _ => base

/-! ### what `parseConfig` leaves in the global `config` -/

/-- the Go-level state: the two policy sub-message pointers may be nil -/
structure Ptrs where
  header : Option HeaderMsg
  body   : Option BodyMsg
  rot    : RootOfTrust

/-- the tool's defaults (`default*` constants): what the global `config` holds when no file is given
    and a flag is unset -/
def defaultHeader : HeaderMsg :=
  { minimumQeSvn := Gen.tools_check_defaultMinQeSvn, minimumPceSvn := Gen.tools_check_defaultMinPceSvn }
def defaultRot : RootOfTrust :=
  { checkCrl := Gen.tools_check_defaultCheckCrl, getCollateral := Gen.tools_check_defaultGetCollateral }

/-- repaired `parseConfig`: every absent sub-message is replaced by an empty one -/
def parseFixed (c : ConfigMsg) : Ptrs :=
  let p := c.policy.getD {}
  { header := some (p.header.getD {}), body := some (p.body.getD {}), rot := c.rootOfTrust.getD {} }

/-- pinned `parseConfig`: only a nil `Policy` is replaced (by one with both sub-messages) -/
def parseUnfixed (c : ConfigMsg) : Ptrs :=
  match c.policy with
  | none => { header := some {}, body := some {}, rot := c.rootOfTrust.getD {} }
  | some p => { header := p.header, body := p.body, rot := c.rootOfTrust.getD {} }

def noConfig : Ptrs := { header := some defaultHeader, body := some {}, rot := defaultRot }

/-! ### the merge -/

structure Policy where
  header : HeaderMsg
  body   : BodyMsg

def mergeHeader (f : Flags) (h : HeaderMsg) : HeaderMsg :=
  { minimumQeSvn := mergeNum f.minimumQeSvn h.minimumQeSvn
    minimumPceSvn := mergeNum f.minimumPceSvn h.minimumPceSvn
    qeVendorId := mergeBytes qeVendorIdSize f.qeVendorId h.qeVendorId }

def mergeBody (f : Flags) (b : BodyMsg) : BodyMsg :=
  { bytes := fun k => mergeBytes k.size (f.body k) (b.bytes k)
    rtmrs := mergeRtmrs f.rtmrs b.rtmrs
    anyMrTd := b.anyMrTd }

def mergeRot (f : Flags) (r : RootOfTrust) : RootOfTrust :=
  { cabundlePaths := mergePaths f.trustedRoots r.cabundlePaths
    cabundles := r.cabundles
    checkCrl := mergeBool f.checkCrl r.checkCrl
    getCollateral := mergeBool f.getCollateral r.getCollateral }

/-- `cmdline.Parse("auto")`: the ten sized byte flags (runs before the config is read) -/
def Flags.bytesOk (f : Flags) : Bool :=
  f.qeVendorId.ok qeVendorIdSize && BodyField.all.all fun k => (f.body k).ok k.size

/-- the errors `populateRootOfTrust` / `populateConfig` return -/
def Flags.restOk (f : Flags) : Bool :=
  f.checkCrl.ok && f.getCollateral.ok && f.trustedRoots.ok &&
  f.minimumQeSvn.ok && f.minimumPceSvn.ok && f.rtmrs.ok

/-- `populateConfig`: dereferences both sub-message pointers whatever the flags are -/
def populateConfig (p : Ptrs) (f : Flags) : Outcome Policy :=
  match p.header, p.body with
  | some h, some b =>
    if f.minimumQeSvn.ok && f.minimumPceSvn.ok && f.rtmrs.ok then
      .ok { header := mergeHeader f h, body := mergeBody f b }
    else .err "flag"
  | _, _ => .panic

def populateRootOfTrust (p : Ptrs) (f : Flags) : Outcome RootOfTrust :=
  if f.checkCrl.ok && f.getCollateral.ok && f.trustedRoots.ok then .ok (mergeRot f p.rot) else .err "flag"

/-! ### `validate.PolicyToOptions` (can the effective policy be converted?) -/

def lenOk (size : Nat) (b : Bytes) : Bool := b.length == 0 || b.length == size

def policyConverts (p : Policy) : Bool :=
  decide (p.header.minimumQeSvn ≤ maxSvn) && decide (p.header.minimumPceSvn ≤ maxSvn) &&
  lenOk qeVendorIdSize p.header.qeVendorId &&
  (BodyField.all.all fun k => lenOk k.size (p.body.bytes k)) &&
  (p.body.rtmrs.length == 0 || (p.body.rtmrs.length == rtmrsCount && p.body.rtmrs.all (lenOk rtmrSize))) &&
  p.body.anyMrTd.all (lenOk Gen.abi_MrTdSize)

/-! ### the library's verdicts (parameters) and the shape of its errors -/

/-- why `verify.TdxQuote` failed -/
inductive VCause where
  | tcbInfoFetch | qeIdentityFetch | pckCrlFetch | rootCrlFetch | other
deriving Repr, DecidableEq

def VCause.isDownload : VCause → Bool
  | .other => false
  | _ => true

inductive VResult where
  | ok | fail (c : VCause)
deriving Repr, DecidableEq

structure Library where
  rotOk     : RootOfTrust → Bool
  verify    : RootOfTrust → VResult
  validates : Policy → Bool

/-- dynamic types an `errors.As` target can name -/
inductive ErrType where
  | crlVal     -- verify.CRLUnavailableErr (a struct value; embeds `error`, has no Unwrap)
  | crlPtr     -- *verify.CRLUnavailableErr (never constructed by the library)
  | attPtr     -- *trust.AttestationRecreationErr
  | other
deriving Repr, DecidableEq

/-- a Go error value as far as `errors.As`/`errors.Unwrap` see it -/
inductive GoErr where
  | leaf (t : ErrType)
  | wrapW (e : GoErr)   -- fmt.Errorf("…: %w", e): Unwrap() = e
  | wrapV (e : GoErr)   -- fmt.Errorf("…: %v", e): only the text survives
deriving Repr, DecidableEq

/-- the dynamic types along the Unwrap chain -/
def GoErr.chain : GoErr → List ErrType
  | .leaf t => [t]
  | .wrapW e => .other :: e.chain
  | .wrapV _ => [.other]

/-- `n` further `fmt.Errorf("…: %w", ·)` layers (callers that add context) -/
def GoErr.wrapN : Nat → GoErr → GoErr
  | 0, e => e
  | n + 1, e => .wrapW (GoErr.wrapN n e)

def errorsAs (e : GoErr) (t : ErrType) : Bool := e.chain.contains t

/-- `errors.Unwrap` (nil = none) -/
def GoErr.unwrap : GoErr → Option GoErr
  | .wrapW e => some e
  | _ => none

/-- the typed error each fetch function returns -/
def fetchError : VCause → GoErr
  | .tcbInfoFetch | .qeIdentityFetch => .leaf .attPtr
  | .pckCrlFetch | .rootCrlFetch => .leaf .crlVal
  | .other => .leaf .other

/-- repaired `obtainCollateral`: `fmt.Errorf("unable to receive …: %w", err)` -/
def libErrorFixed (c : VCause) : GoErr :=
  if c.isDownload then .wrapW (fetchError c) else fetchError c

/-- pinned `obtainCollateral`: `%v` -/
def libErrorUnfixed (c : VCause) : GoErr :=
  if c.isDownload then .wrapV (fetchError c) else fetchError c

/-- `main`'s `clarify(err) || clarify(errors.Unwrap(err))` with the given `errors.As` target for CRLs -/
def clarify (crlTarget : ErrType) (e : GoErr) : Bool :=
  let c := fun (x : GoErr) => errorsAs x crlTarget || errorsAs x .attPtr
  c e || (match e.unwrap with
    | some u => c u
    | none => false)

def exitTool : Nat := Gen.tools_check_exitTool
def exitVerify : Nat := Gen.tools_check_exitVerify
def exitNetwork : Nat := Gen.tools_check_exitNetwork
def exitPolicy : Nat := Gen.tools_check_exitPolicy

/-! ### the tool -/

inductive QuoteArg where
  | unreadable   -- `-in` cannot be opened / read
  | badInform    -- `-inform` is none of bin/proto/textproto
  | unparsable   -- the bytes do not parse in the given format
  | parsed
deriving Repr, DecidableEq

structure ToolInput where
  flagPkgOk : Bool := true   -- Go's flag package accepted the command line (known flags, typed values)
  flags     : Flags := {}
  config    : ConfigArg := .absent
  quote     : QuoteArg := .parsed

inductive Run where
  | exit (code : Nat)
  | crash
deriving Repr, DecidableEq

structure Variant where
  parse       : ConfigMsg → Ptrs
  flagPkgExit : Nat
  libError    : VCause → GoErr
  crlTarget   : ErrType

def fixed : Variant := ⟨parseFixed, exitTool, libErrorFixed, .crlVal⟩
/-- the pinned tree; 2 is the status `flag.ExitOnError` exits with -/
def pinned : Variant := ⟨parseUnfixed, 2, libErrorUnfixed, .crlPtr⟩

def ptrsOf (v : Variant) : ConfigArg → Option Ptrs
  | .absent => some noConfig
  | .unreadable => none
  | .file c => some (v.parse c)

/-- `main`, step by step -/
def toolV (v : Variant) (L : Library) (i : ToolInput) : Run :=
  if !i.flagPkgOk then .exit v.flagPkgExit            -- flag.Parse()
  else if !i.flags.bytesOk then .exit exitTool        -- cmdline.Parse("auto")
  else match ptrsOf v i.config with
  | none => .exit exitTool                            -- parseConfig fails
  | some p =>
    -- multierr.Combine(populateRootOfTrust(), populateConfig()): both run
    match populateRootOfTrust p i.flags, populateConfig p i.flags with
    | _, .panic => .crash
    | .panic, _ => .crash
    | .ok rot, .ok pol =>
      if rot.checkCrl && !rot.getCollateral then .exit exitTool
      else if i.quote ≠ .parsed then .exit exitTool   -- readQuote
      else if !L.rotOk rot then .exit exitTool        -- RootOfTrustToOptions
      else match L.verify rot with
      | .fail c => .exit (if clarify v.crlTarget (v.libError c) then exitNetwork else exitVerify)
      | .ok =>
        if !policyConverts pol then .exit exitTool    -- PolicyToOptions
        else if !L.validates pol then .exit exitPolicy
        else .exit 0
    | _, _ => .exit exitTool

/-- the property-satisfying tool -/
def tool (L : Library) (i : ToolInput) : Run := toolV fixed L i

/-! ### the same decision as a table over the *effective* settings -/

/-- what is in `config` before the flags are applied (repaired: total) -/
structure Base where
  header : HeaderMsg
  body   : BodyMsg
  rot    : RootOfTrust

def baseOf : ConfigArg → Base
  | .file c =>
    let p := c.policy.getD {}
    { header := p.header.getD {}, body := p.body.getD {}, rot := c.rootOfTrust.getD {} }
  | _ => { header := defaultHeader, body := {}, rot := defaultRot }

def effectiveRot (i : ToolInput) : RootOfTrust := mergeRot i.flags (baseOf i.config).rot

def effectivePolicy (i : ToolInput) : Policy :=
  { header := mergeHeader i.flags (baseOf i.config).header, body := mergeBody i.flags (baseOf i.config).body }

def configReadable : ConfigArg → Bool
  | .unreadable => false
  | _ => true

/-- command line, config and quote are usable, the options are consistent and the root of trust loads -/
def usageOk (L : Library) (i : ToolInput) : Bool :=
  i.flagPkgOk && i.flags.bytesOk && configReadable i.config && i.flags.restOk &&
  !((effectiveRot i).checkCrl && !(effectiveRot i).getCollateral) &&
  decide (i.quote = .parsed) && L.rotOk (effectiveRot i)

def exitCode (L : Library) (i : ToolInput) : Nat :=
  if !usageOk L i then exitTool
  else match L.verify (effectiveRot i) with
  | .fail c => if c.isDownload then exitNetwork else exitVerify
  | .ok =>
    if !policyConverts (effectivePolicy i) then exitTool
    else if !L.validates (effectivePolicy i) then exitPolicy
    else 0

end Tdx.CheckTool
