import TdxProofs.Props.C09
import TdxProofs.Props.C15
import TdxProofs.Props.C20
import TdxProofs.Props.C17
import TdxProofs.Props.C13
import TdxProofs.Props.C08
import TdxProofs.Props.C14
import TdxProofs.Props.C19
