import TdxProofs.Props.C15
